// Bounded stand-in for the value meaning of the convert transform (C10; labelled bounded, never
// counted as proved). Injected into internal/controller/apiextensions/composite with
// `go test -overlay`.
//
// The deductive part proves the result types of the conversion table's entries and the
// bool/integer meaning; what the conversions that go through strconv compute is library
// semantics the generated conditions do not decide. Here the real ResolveConvert is run on a
// sample of values of every scalar type and the property's "convert round-trips between
// string, integer, boolean and float preserve the value" is checked wherever the value is
// representable on the way: x -> T -> type(x) gives x back, and every single conversion yields
// the Go type that stands for its target (string, int64, bool, float64).
package composite

import (
	"encoding/json"
	"fmt"
	"math"
	"testing"

	v1 "github.com/crossplane/crossplane/apis/apiextensions/v1"
)

func verifGoType(t v1.TransformIOType) string {
	switch t {
	case v1.TransformIOTypeString:
		return "string"
	case v1.TransformIOTypeInt64, v1.TransformIOTypeInt:
		return "int64"
	case v1.TransformIOTypeBool:
		return "bool"
	case v1.TransformIOTypeFloat64:
		return "float64"
	}
	return "?"
}

func TestVerifBoundedConvert(t *testing.T) {
	ints := []int64{0, 1, -1, 2, -2, 7, 42, -1000, 1 << 31, 1 << 53, -(1 << 53), math.MaxInt64, math.MinInt64}
	floats := []float64{0, 1, -1, 0.5, -2.25, 3, 1e10, 123456.789, 1e21, -1e-7}
	bools := []bool{true, false}
	strs := []string{"0", "1", "-1", "42", "-9223372036854775808", "9223372036854775807", "true", "false", "0.5", "-2.25", "1e+21", "100"}
	var samples []any
	for _, v := range ints {
		samples = append(samples, v)
	}
	for _, v := range floats {
		samples = append(samples, v)
	}
	for _, v := range bools {
		samples = append(samples, v)
	}
	for _, v := range strs {
		samples = append(samples, v)
	}
	targets := []v1.TransformIOType{v1.TransformIOTypeString, v1.TransformIOTypeInt64, v1.TransformIOTypeInt, v1.TransformIOTypeBool, v1.TransformIOTypeFloat64}
	checked, roundTrips := 0, 0
	fail := func(in any, to v1.TransformIOType, msg string) {
		rep, _ := json.Marshal(map[string]any{"input": fmt.Sprintf("%T(%v)", in, in), "toType": to, "failure": msg})
		t.Errorf("VERIF-REPRODUCED %s", rep)
	}
	// representable(x, T): converting x to T loses nothing, so the way back must give x
	representable := func(x any, to v1.TransformIOType) bool {
		goT := verifGoType(to)
		switch v := x.(type) {
		case bool:
			return true
		case int64:
			switch goT {
			case "string":
				return true
			case "float64":
				return v >= -(1<<53) && v <= 1<<53
			case "bool":
				return v == 0 || v == 1
			}
		case float64:
			switch goT {
			case "string":
				return true
			case "int64":
				return v == math.Trunc(v) && math.Abs(v) <= 1<<53
			case "bool":
				return v == 0 || v == 1
			}
		case string:
			// canonical renderings only: the string is what the way back produces
			switch goT {
			case "int64":
				var n int64
				_, err := fmt.Sscanf(v, "%d", &n)
				return err == nil && fmt.Sprintf("%d", n) == v
			case "bool":
				return v == "true" || v == "false"
			case "float64":
				return v == "0.5" || v == "-2.25" || v == "0" || v == "1" || v == "-1" || v == "42" || v == "100"
			}
		}
		return goT == fmt.Sprintf("%T", x)
	}
	for _, in := range samples {
		from := v1.TransformIOType(fmt.Sprintf("%T", in))
		for _, to := range targets {
			checked++
			out, err := ResolveConvert(v1.ConvertTransform{ToType: to}, in)
			if err != nil {
				if representable(in, to) {
					fail(in, to, fmt.Sprintf("conversion of a representable value failed: %v", err))
					return
				}
				continue
			}
			if got := fmt.Sprintf("%T", out); got != verifGoType(to) {
				fail(in, to, fmt.Sprintf("result has Go type %s, the target type stands for %s (the next transform in a chain asserts that type)", got, verifGoType(to)))
				return
			}
			if !representable(in, to) {
				continue
			}
			back, err := ResolveConvert(v1.ConvertTransform{ToType: from}, out)
			if err != nil {
				fail(in, to, fmt.Sprintf("converted to %T(%v); converting back failed: %v", out, out, err))
				return
			}
			roundTrips++
			if back != in {
				fail(in, to, fmt.Sprintf("round trip %T(%v) -> %T(%v) -> %T(%v) does not preserve the value", in, in, out, out, back, back))
				return
			}
		}
	}
	rep, _ := json.Marshal(map[string]any{"samples": len(samples), "conversions_checked": checked, "round_trips_checked": roundTrips})
	fmt.Printf("VERIF-BOUNDED %s\n", rep)
}
