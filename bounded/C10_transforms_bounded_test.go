// Bounded stand-in for the documented meaning of the math, string, map and match transforms
// (C10; labelled bounded, never counted as proved). Injected into
// internal/controller/apiextensions/composite with `go test -overlay`.
//
// The deductive part proves that the transforms never panic and how patch policies behave; what
// a transform computes is arithmetic on floats and standard-library string functions, which the
// generated conditions do not decide. Here the real Resolve is run on sample inputs and compared
// with a reference written from the API documentation of apis/apiextensions/v1:
//   math Multiply: input * multiply, a float input gives a float64, an int/int64 input an int64;
//   math ClampMin/ClampMax: the input unchanged (type included) unless it is below/above the bound,
//     then the bound (int64);
//   string Convert ToUpper/ToLower/ToBase64/FromBase64, TrimPrefix/TrimSuffix, Format, Join,
//     Regexp (whole match or the numbered group);
//   map: the value paired with the input string, an error when there is none;
//   match: the result of the first pattern that matches (literal equality / regular expression),
//     otherwise the fallback value or the input, as configured.
package composite

import (
	"encoding/base64"
	"encoding/json"
	"fmt"
	"reflect"
	"strings"
	"testing"

	extv1 "k8s.io/apiextensions-apiserver/pkg/apis/apiextensions/v1"

	v1 "github.com/crossplane/crossplane/apis/apiextensions/v1"
)

func TestVerifBoundedTransforms(t *testing.T) {
	checked := 0
	fail := func(what string, in any, got any, err error, want any) {
		rep, _ := json.Marshal(map[string]any{"transform": what, "input": fmt.Sprintf("%T(%v)", in, in), "got": fmt.Sprintf("%T(%v)", got, got), "error": fmt.Sprint(err), "documented": fmt.Sprintf("%T(%v)", want, want)})
		t.Errorf("VERIF-REPRODUCED %s", rep)
	}
	p64 := func(v int64) *int64 { return &v }
	ps := func(v string) *string { return &v }
	// ---- math ----
	ints := []int64{0, 1, -1, 7, -250, 1 << 40}
	floats := []float64{0, 1.5, 0.25, -2.5, 1000, 1e-3}
	mults := []int64{0, 1, 2, -3, 1000}
	for _, m := range mults {
		tr := v1.Transform{Type: v1.TransformTypeMath, Math: &v1.MathTransform{Type: v1.MathTransformTypeMultiply, Multiply: p64(m)}}
		for _, i := range ints {
			checked += 2
			if got, err := Resolve(tr, i); err != nil || !reflect.DeepEqual(got, i*m) {
				fail(fmt.Sprintf("math Multiply %d", m), i, got, err, i*m)
				return
			}
			if got, err := Resolve(tr, int(i)); err != nil || !reflect.DeepEqual(got, i*m) {
				fail(fmt.Sprintf("math Multiply %d", m), int(i), got, err, i*m)
				return
			}
		}
		for _, f := range floats {
			checked++
			if got, err := Resolve(tr, f); err != nil || !reflect.DeepEqual(got, f*float64(m)) {
				fail(fmt.Sprintf("math Multiply %d", m), f, got, err, f*float64(m))
				return
			}
		}
	}
	for _, bound := range []int64{-5, 0, 3} {
		for _, typ := range []v1.MathTransformType{v1.MathTransformTypeClampMin, v1.MathTransformTypeClampMax} {
			mt := &v1.MathTransform{Type: typ}
			if typ == v1.MathTransformTypeClampMin {
				mt.ClampMin = p64(bound)
			} else {
				mt.ClampMax = p64(bound)
			}
			tr := v1.Transform{Type: v1.TransformTypeMath, Math: mt}
			var inputs []any
			for _, i := range []int64{-7, -5, 0, 2, 3, 9} {
				inputs = append(inputs, i, int(i), float64(i))
			}
			for _, in := range inputs {
				checked++
				var num int64
				switch v := in.(type) {
				case int64:
					num = v
				case int:
					num = int64(v)
				case float64:
					num = int64(v)
				}
				var want any = in
				if typ == v1.MathTransformTypeClampMin && num < bound || typ == v1.MathTransformTypeClampMax && num > bound {
					want = bound
				}
				if got, err := Resolve(tr, in); err != nil || !reflect.DeepEqual(got, want) {
					fail(fmt.Sprintf("math %s %d", typ, bound), in, got, err, want)
					return
				}
			}
		}
	}
	// ---- string ----
	strs := []string{"", "abc", "Abc-DEF", "prefix-body-suffix", "x", "prefix-", "aGVsbG8="}
	for _, s := range strs {
		cases := []struct {
			name string
			st   v1.StringTransform
			want any
			fails bool
		}{
			{"string Convert ToUpper", v1.StringTransform{Type: v1.StringTransformTypeConvert, Convert: (*v1.StringConversionType)(ps("ToUpper"))}, strings.ToUpper(s), false},
			{"string Convert ToLower", v1.StringTransform{Type: v1.StringTransformTypeConvert, Convert: (*v1.StringConversionType)(ps("ToLower"))}, strings.ToLower(s), false},
			{"string Convert ToBase64", v1.StringTransform{Type: v1.StringTransformTypeConvert, Convert: (*v1.StringConversionType)(ps("ToBase64"))}, base64.StdEncoding.EncodeToString([]byte(s)), false},
			{"string TrimPrefix prefix-", v1.StringTransform{Type: v1.StringTransformTypeTrimPrefix, Trim: ps("prefix-")}, strings.TrimPrefix(s, "prefix-"), false},
			{"string TrimSuffix -suffix", v1.StringTransform{Type: v1.StringTransformTypeTrimSuffix, Trim: ps("-suffix")}, strings.TrimSuffix(s, "-suffix"), false},
			{"string Format <%s>", v1.StringTransform{Type: v1.StringTransformTypeFormat, Format: ps("<%s>")}, "<" + s + ">", false},
		}
		if dec, err := base64.StdEncoding.DecodeString(s); err == nil {
			cases = append(cases, struct {
				name string
				st   v1.StringTransform
				want any
				fails bool
			}{"string Convert FromBase64", v1.StringTransform{Type: v1.StringTransformTypeConvert, Convert: (*v1.StringConversionType)(ps("FromBase64"))}, string(dec), false})
		}
		for _, c := range cases {
			checked++
			st := c.st
			got, err := Resolve(v1.Transform{Type: v1.TransformTypeString, String: &st}, s)
			if err != nil || !reflect.DeepEqual(got, c.want) {
				fail(c.name, s, got, err, c.want)
				return
			}
		}
	}
	group := 1
	for _, c := range []struct {
		in    string
		re    v1.StringTransformRegexp
		want  string
		fails bool
	}{
		{"arn:aws:s3:::bucket", v1.StringTransformRegexp{Match: "arn:aws:([a-z0-9]+):"}, "arn:aws:s3:", false},
		{"arn:aws:s3:::bucket", v1.StringTransformRegexp{Match: "arn:aws:([a-z0-9]+):", Group: &group}, "s3", false},
		{"nothing", v1.StringTransformRegexp{Match: "arn:aws:([a-z0-9]+):"}, "", true},
	} {
		checked++
		re := c.re
		got, err := Resolve(v1.Transform{Type: v1.TransformTypeString, String: &v1.StringTransform{Type: v1.StringTransformTypeRegexp, Regexp: &re}}, c.in)
		if c.fails != (err != nil) || (!c.fails && got != c.want) {
			fail(fmt.Sprintf("string Regexp %q group %v", c.re.Match, c.re.Group), c.in, got, err, c.want)
			return
		}
	}
	checked++
	if got, err := Resolve(v1.Transform{Type: v1.TransformTypeString, String: &v1.StringTransform{Type: v1.StringTransformTypeJoin, Join: &v1.StringTransformJoin{Separator: ","}}}, []any{"a", "b", int64(3)}); err != nil || got != "a,b,3" {
		fail("string Join ,", []any{"a", "b", int64(3)}, got, err, "a,b,3")
		return
	}
	// ---- map ----
	js := func(v any) extv1.JSON { b, _ := json.Marshal(v); return extv1.JSON{Raw: b} }
	mp := &v1.MapTransform{Pairs: map[string]extv1.JSON{"us": js("us-east-1"), "eu": js(map[string]any{"region": "eu-west-1"}), "n": js(5)}}
	for in, want := range map[string]any{"us": "us-east-1", "eu": map[string]any{"region": "eu-west-1"}, "n": float64(5)} {
		checked++
		if got, err := Resolve(v1.Transform{Type: v1.TransformTypeMap, Map: mp}, in); err != nil || !reflect.DeepEqual(got, want) {
			fail("map", in, got, err, want)
			return
		}
	}
	checked++
	if got, err := Resolve(v1.Transform{Type: v1.TransformTypeMap, Map: mp}, "absent"); err == nil {
		fail("map (key absent: documented as an error)", "absent", got, err, nil)
		return
	}
	// ---- match ----
	for _, fb := range []v1.MatchFallbackTo{v1.MatchFallbackToTypeValue, v1.MatchFallbackToTypeInput} {
		mt := &v1.MatchTransform{
			Patterns: []v1.MatchTransformPattern{
				{Type: v1.MatchTransformPatternTypeLiteral, Literal: ps("small"), Result: js("t3.small")},
				{Type: v1.MatchTransformPatternTypeRegexp, Regexp: ps("^large.*"), Result: js("m5.large")},
				{Type: v1.MatchTransformPatternTypeLiteral, Literal: ps("large-2"), Result: js("never: the regexp above comes first")},
			},
			FallbackTo: fb,
		}
		if fb == v1.MatchFallbackToTypeValue {
			mt.FallbackValue = js("default")
		}
		for in, want := range map[string]any{"small": "t3.small", "large": "m5.large", "large-2": "m5.large", "smallish": nil, "": nil} {
			checked++
			if want == nil {
				want = "default"
				if fb == v1.MatchFallbackToTypeInput {
					want = in
				}
			}
			if got, err := Resolve(v1.Transform{Type: v1.TransformTypeMatch, Match: mt}, in); err != nil || !reflect.DeepEqual(got, want) {
				fail(fmt.Sprintf("match (fallbackTo %s)", fb), in, got, err, want)
				return
			}
		}
	}
	rep, _ := json.Marshal(map[string]any{"transform_applications_checked": checked})
	fmt.Printf("VERIF-BOUNDED %s\n", rep)
}
