// Bounded stand-in for the permission-request check of C18 (labelled bounded, never counted as
// proved). Injected into internal/controller/rbac/provider/roles with `go test -overlay` and run
// against the real Expand, rule tree (node.Allow / node.Allowed) and, through a fake client,
// ClusterRoleBackedValidator.ValidatePermissionRequests.
//
// Every PolicyRule whose five list fields (APIGroups, Resources, ResourceNames, Verbs,
// NonResourceURLs) are each one of {}, {x}, {*}, {x,*} is enumerated (1024 rules); every pair
// (allow rule, requested rule) is checked exhaustively (1 048 576 pairs), and with
// VERIF_RBAC_SAMPLES > 0 that many random (two allow rules over a two-letter alphabet, one
// request) triples from VERIF_SEED. Reference oracle, written independently of the code:
//   expansion   = the cross products URLs x verbs and groups x resources x names' x verbs,
//                 names' = names or {*} when no name is given;
//   a granular request is covered iff some granular allow rule of the same shape matches it
//   segment by segment, where an allow segment * matches anything and a literal only itself;
//   rejected    = the granular requests that are not covered, in expansion order.
package roles

import (
	"context"
	"encoding/json"
	"fmt"
	"math/rand"
	"os"
	"reflect"
	"strconv"
	"testing"

	rbacv1 "k8s.io/api/rbac/v1"
	"sigs.k8s.io/controller-runtime/pkg/client"

	"github.com/crossplane/crossplane-runtime/pkg/test"
)

func boundedSubsets(lits ...string) [][]string {
	out := [][]string{nil}
	n := len(lits)
	for m := 1; m < 1<<n; m++ {
		var s []string
		for i := 0; i < n; i++ {
			if m&(1<<i) != 0 {
				s = append(s, lits[i])
			}
		}
		out = append(out, s)
	}
	return out
}

func boundedRules(alpha ...string) []rbacv1.PolicyRule {
	var out []rbacv1.PolicyRule
	mk := func(prefix string) [][]string {
		var l []string
		for _, a := range alpha {
			l = append(l, prefix+a)
		}
		return boundedSubsets(append(l, "*")...)
	}
	for _, g := range mk("g") {
		for _, r := range mk("r") {
			for _, n := range mk("n") {
				for _, v := range mk("v") {
					for _, u := range mk("/u") {
						out = append(out, rbacv1.PolicyRule{APIGroups: g, Resources: r, ResourceNames: n, Verbs: v, NonResourceURLs: u})
					}
				}
			}
		}
	}
	return out
}

// reference expansion
func refExpand(rs ...rbacv1.PolicyRule) []Rule {
	out := []Rule{}
	for _, r := range rs {
		for _, u := range r.NonResourceURLs {
			for _, v := range r.Verbs {
				out = append(out, Rule{NonResourceURL: u, Verb: v})
			}
		}
		names := r.ResourceNames
		if len(names) == 0 {
			names = []string{"*"}
		}
		for _, g := range r.APIGroups {
			for _, rsc := range r.Resources {
				for _, n := range names {
					for _, v := range r.Verbs {
						out = append(out, Rule{APIGroup: g, Resource: rsc, ResourceName: n, Verb: v})
					}
				}
			}
		}
	}
	return out
}

func segCovers(allow, want string) bool { return allow == "*" || allow == want }

func refCovered(allow []Rule, q Rule) bool {
	for _, a := range allow {
		if (a.NonResourceURL != "") != (q.NonResourceURL != "") {
			continue
		}
		if q.NonResourceURL != "" {
			if segCovers(a.NonResourceURL, q.NonResourceURL) && segCovers(a.Verb, q.Verb) {
				return true
			}
			continue
		}
		if segCovers(a.APIGroup, q.APIGroup) && segCovers(a.Resource, q.Resource) && segCovers(a.ResourceName, q.ResourceName) && segCovers(a.Verb, q.Verb) {
			return true
		}
	}
	return false
}

func checkBoundedRBAC(allow []rbacv1.PolicyRule, req ...rbacv1.PolicyRule) string {
	ctx := context.Background()
	gotAllow, err := Expand(ctx, allow...)
	if err != nil {
		return "Expand(allow) failed: " + err.Error()
	}
	if want := refExpand(allow...); !reflect.DeepEqual(gotAllow, want) {
		return fmt.Sprintf("Expand(allow) = %v, want %v", gotAllow, want)
	}
	gotReq, err := Expand(ctx, req...)
	if err != nil {
		return "Expand(request) failed: " + err.Error()
	}
	wantReq := refExpand(req...)
	if !reflect.DeepEqual(gotReq, wantReq) {
		return fmt.Sprintf("Expand(request) = %v, want %v", gotReq, wantReq)
	}
	// the real tree
	t := newNode()
	for _, a := range gotAllow {
		t.Allow(a.path())
	}
	wantRejected := []Rule{}
	for _, q := range wantReq {
		cov := refCovered(refExpand(allow...), q)
		if got := t.Allowed(q.path()); got != cov {
			return fmt.Sprintf("Allowed(%v) = %v, reference says %v", q, got, cov)
		}
		if !cov {
			wantRejected = append(wantRejected, q)
		}
	}
	// the real validator over a fake client that serves the allow-list ClusterRole
	c := &test.MockClient{MockGet: test.NewMockGetFn(nil, func(o client.Object) error {
		if cr, ok := o.(*rbacv1.ClusterRole); ok {
			cr.Rules = allow
		}
		return nil
	})}
	rejected, err := NewClusterRoleBackedValidator(c, "allowed").ValidatePermissionRequests(ctx, req...)
	if err != nil {
		return "ValidatePermissionRequests failed: " + err.Error()
	}
	if !reflect.DeepEqual(rejected, wantRejected) {
		return fmt.Sprintf("rejected = %v, reference says %v", rejected, wantRejected)
	}
	return ""
}

func TestVerifBoundedRBAC(t *testing.T) {
	samples, _ := strconv.Atoi(os.Getenv("VERIF_RBAC_SAMPLES"))
	seed, _ := strconv.ParseInt(os.Getenv("VERIF_SEED"), 10, 64)
	stride := 1
	if v, err := strconv.Atoi(os.Getenv("VERIF_RBAC_STRIDE")); err == nil && v > 0 {
		stride = v
	}
	rules := boundedRules("a")
	pairs := 0
	fail := func(allow []rbacv1.PolicyRule, req rbacv1.PolicyRule, msg string) {
		rep, _ := json.Marshal(map[string]any{"allow": allow, "request": req, "failure": msg})
		t.Errorf("VERIF-REPRODUCED %s", rep)
	}
	for i, a := range rules {
		for j, q := range rules {
			if stride > 1 && (i*len(rules)+j)%stride != int(seed)%stride {
				continue
			}
			pairs++
			if msg := checkBoundedRBAC([]rbacv1.PolicyRule{a}, q); msg != "" {
				fail([]rbacv1.PolicyRule{a}, q, msg)
				return
			}
		}
	}
	// Subresources: a rule on a resource never covers its subresources and vice versa (only the
	// literal or * does). Every pair over resources in {r, r/sub, *, */sub} with the other
	// fields fixed to a literal or the wildcard.
	subPairs := 0
	resources := []string{"ra", "ra/sub", "*", "*/sub", "rb/sub"}
	for _, ar := range resources {
		for _, qr := range resources {
			for _, ag := range []string{"ga", "*"} {
				for _, av := range []string{"va", "*"} {
					a := rbacv1.PolicyRule{APIGroups: []string{ag}, Resources: []string{ar}, Verbs: []string{av}}
					q := rbacv1.PolicyRule{APIGroups: []string{"ga"}, Resources: []string{qr}, Verbs: []string{"va"}}
					subPairs++
					if msg := checkBoundedRBAC([]rbacv1.PolicyRule{a}, q); msg != "" {
						fail([]rbacv1.PolicyRule{a}, q, msg)
						return
					}
				}
			}
		}
	}
	// Lists of two requests: what one request says (its resource names in particular, where an
	// empty list means every name) must not carry over to the next. Every ordered pair of
	// requests and every single allow rule over rules that differ in their names and URLs only.
	seqTriples := 0
	var seqRules []rbacv1.PolicyRule
	for _, ns := range [][]string{nil, {"na"}, {"nb"}, {"*"}, {"na", "nb"}} {
		for _, us := range [][]string{nil, {"/u"}} {
			seqRules = append(seqRules, rbacv1.PolicyRule{APIGroups: []string{"ga"}, Resources: []string{"ra"}, ResourceNames: ns, Verbs: []string{"va"}, NonResourceURLs: us})
		}
	}
	for _, a := range seqRules {
		for _, q1 := range seqRules {
			for _, q2 := range seqRules {
				seqTriples++
				if msg := checkBoundedRBAC([]rbacv1.PolicyRule{a}, q1, q2); msg != "" {
					rep, _ := json.Marshal(map[string]any{"allow": []rbacv1.PolicyRule{a}, "requests": []rbacv1.PolicyRule{q1, q2}, "failure": msg})
					t.Errorf("VERIF-REPRODUCED %s", rep)
					return
				}
			}
		}
	}
	rng := rand.New(rand.NewSource(seed))
	two := boundedRules("a", "b")
	for s := 0; s < samples; s++ {
		allow := []rbacv1.PolicyRule{two[rng.Intn(len(two))], two[rng.Intn(len(two))]}
		q := two[rng.Intn(len(two))]
		if msg := checkBoundedRBAC(allow, q); msg != "" {
			fail(allow, q, msg)
			return
		}
	}
	rep, _ := json.Marshal(map[string]any{"rule_shapes": len(rules), "allow_request_pairs_checked": pairs, "subresource_pairs_checked": subPairs, "two_request_triples_checked": seqTriples, "stride": stride, "sampled_two_allow_rule_triples": samples, "seed": seed})
	fmt.Printf("VERIF-BOUNDED %s\n", rep)
}
