package composite

// Bounded stand-in (labelled bounded, never counted as proved) for
// (*GarbageCollectingAssociator).AssociateTemplates: the real function on every configuration of at
// most 3 named templates and at most 4 resource references, each referenced resource annotated with
// a template that still exists, with one that is gone, or not found at all. Reference: every
// referenced resource whose template still exists is associated with it, every one whose template
// is gone (and that the XR controls or nobody controls) is deleted - wherever it stands in the
// list - and nothing else is written.

import (
	"context"
	"encoding/json"
	"fmt"
	"testing"

	corev1 "k8s.io/api/core/v1"
	kerrors "k8s.io/apimachinery/pkg/api/errors"
	"k8s.io/apimachinery/pkg/runtime/schema"
	"k8s.io/utils/ptr"
	"sigs.k8s.io/controller-runtime/pkg/client"

	"github.com/crossplane/crossplane-runtime/pkg/resource/fake"
	"github.com/crossplane/crossplane-runtime/pkg/resource/unstructured/composed"
	"github.com/crossplane/crossplane-runtime/pkg/test"

	v1 "github.com/crossplane/crossplane/apis/apiextensions/v1"
)

func TestVerifBoundedAssociate(t *testing.T) {
	tnames := []string{"t0", "t1", "t2"}
	kinds := []string{"t0", "t1", "t2", "gone-a", "gone-b", "absent"} // what a referenced resource is annotated with
	checked := 0
	for nt := 0; nt <= 3; nt++ {
		var cts []v1.ComposedTemplate
		for i := 0; i < nt; i++ {
			cts = append(cts, v1.ComposedTemplate{Name: ptr.To(tnames[i])})
		}
		var rec func(cur []string)
		rec = func(cur []string) {
			if len(cur) <= 4 {
				checked++
				// no two references may claim the same existing template
				seen := map[string]bool{}
				ok := true
				for _, k := range cur {
					if k[0] == 't' {
						if seen[k] {
							ok = false
						}
						seen[k] = true
					}
				}
				if ok {
					runAssociateCase(t, cts, cur)
				}
			}
			if len(cur) == 4 {
				return
			}
			for _, k := range kinds {
				rec(append(append([]string(nil), cur...), k))
			}
		}
		rec(nil)
	}
	rep, _ := json.Marshal(map[string]any{"configurations_checked": checked})
	fmt.Printf("VERIF-BOUNDED %s\n", rep)
}

func runAssociateCase(t *testing.T, cts []v1.ComposedTemplate, refsKind []string) {
	t.Helper()
	exists := map[string]bool{}
	for _, ct := range cts {
		exists[*ct.Name] = true
	}
	xr := &fake.Composite{}
	xr.SetUID("xr-uid")
	var refs []corev1.ObjectReference
	annotated := map[string]string{}
	for i, k := range refsKind {
		name := fmt.Sprintf("cd-%d", i)
		refs = append(refs, corev1.ObjectReference{APIVersion: "example.org/v1", Kind: "Thing", Name: name})
		annotated[name] = k
	}
	xr.SetResourceReferences(refs)
	var deleted, updated []string
	get := func(_ context.Context, key client.ObjectKey, obj client.Object) error {
		k, ok := annotated[key.Name]
		if !ok || k == "absent" {
			return kerrors.NewNotFound(schema.GroupResource{Resource: "things"}, key.Name)
		}
		cd := obj.(*composed.Unstructured)
		cd.SetName(key.Name)
		SetCompositionResourceName(cd, ResourceName(k))
		return nil
	}
	c := &test.MockClient{
		MockGet:    get,
		MockUpdate: func(_ context.Context, o client.Object, _ ...client.UpdateOption) error { updated = append(updated, o.GetName()); return nil },
		MockDelete: func(_ context.Context, o client.Object, _ ...client.DeleteOption) error { deleted = append(deleted, o.GetName()); return nil },
	}
	tas, err := NewGarbageCollectingAssociator(c, c).AssociateTemplates(context.Background(), xr, cts)
	fail := func(msg string) {
		rep, _ := json.Marshal(map[string]any{"templates": len(cts), "references_annotated_with": refsKind, "deleted": deleted, "failure": msg})
		t.Errorf("VERIF-REPRODUCED %s", rep)
	}
	if err != nil {
		fail("unexpected error: " + err.Error())
		return
	}
	if len(tas) != len(cts) {
		fail(fmt.Sprintf("%d associations for %d templates", len(tas), len(cts)))
		return
	}
	wantDeleted := map[string]bool{}
	for i, k := range refsKind {
		name := fmt.Sprintf("cd-%d", i)
		switch {
		case k == "absent":
		case exists[k]:
			found := false
			for j, ta := range tas {
				if *cts[j].Name == k && ta.Reference.Name == name {
					found = true
				}
			}
			if !found {
				fail(fmt.Sprintf("referenced resource %s of template %s is not associated with it (it would be created again under a new name)", name, k))
				return
			}
		default:
			wantDeleted[name] = true
		}
	}
	for _, d := range deleted {
		if !wantDeleted[d] {
			fail(fmt.Sprintf("resource %s was deleted although its template exists", d))
			return
		}
		delete(wantDeleted, d)
	}
	for d := range wantDeleted {
		fail(fmt.Sprintf("referenced resource %s belongs to a template that no longer exists but was not garbage collected: the references are rewritten without it and it leaks", d))
		return
	}
}
