package xpkg

// Bounded stand-in (labelled bounded, never counted as proved) for (*ImageConfigStore).bestMatch
// through ImageVerificationConfigFor: ImageConfigs with prefixes at registry, organisation and
// repository level against package sources with a tag, a digest, both or none. The config chosen
// is the one with the longest prefix that the source starts with - a repository-level prefix
// matches that repository's tagged and digested sources.

import (
	"context"
	"encoding/json"
	"fmt"
	"strings"
	"testing"

	metav1 "k8s.io/apimachinery/pkg/apis/meta/v1"
	"sigs.k8s.io/controller-runtime/pkg/client"

	"github.com/crossplane/crossplane-runtime/pkg/test"

	"github.com/crossplane/crossplane/apis/pkg/v1beta1"
)

func TestVerifBoundedImageConfig(t *testing.T) {
	prefixes := []string{"xpkg.example.org", "xpkg.example.org/", "xpkg.example.org/acme", "xpkg.example.org/acme/", "xpkg.example.org/acme/provider-a", "xpkg.example.org/acme/provider", "other.example.org/acme/provider-a"}
	images := []string{
		"xpkg.example.org/acme/provider-a", "xpkg.example.org/acme/provider-a:v1.0.0",
		"xpkg.example.org/acme/provider-a@sha256:0123456789abcdef0123456789abcdef0123456789abcdef0123456789abcdef",
		"xpkg.example.org/acme/provider-a:v1.0.0@sha256:0123456789abcdef0123456789abcdef0123456789abcdef0123456789abcdef",
		"xpkg.example.org/acme/provider-ab:v1", "xpkg.example.org/acme-corp/provider-a:v1", "xpkg.example.org/other/x:v1",
	}
	checked := 0
	// every non-empty subset of at most 2 prefixes
	for i := 0; i < len(prefixes); i++ {
		for j := i; j < len(prefixes); j++ {
			var items []v1beta1.ImageConfig
			set := []string{prefixes[i]}
			if j != i {
				set = append(set, prefixes[j])
			}
			for _, p := range set {
				items = append(items, v1beta1.ImageConfig{ObjectMeta: metav1.ObjectMeta{Name: "cfg-" + p},
					Spec: v1beta1.ImageConfigSpec{MatchImages: []v1beta1.ImageMatch{{Prefix: p}}, Verification: &v1beta1.ImageVerification{Provider: v1beta1.ImageVerificationProviderCosign, Cosign: &v1beta1.CosignVerificationConfig{}}}})
			}
			c := &test.MockClient{MockList: test.NewMockListFn(nil, func(obj client.ObjectList) error {
				obj.(*v1beta1.ImageConfigList).Items = items
				return nil
			})}
			for _, img := range images {
				checked++
				want := ""
				for _, p := range set {
					if strings.HasPrefix(img, p) && len(p) > len(strings.TrimPrefix(want, "cfg-")) {
						want = "cfg-" + p
					}
				}
				got, _, err := NewImageConfigStore(c, "crossplane-system").ImageVerificationConfigFor(context.Background(), img)
				if err != nil || got != want {
					rep, _ := json.Marshal(map[string]any{"prefixes": set, "image": img, "chosen": got, "want": want, "error": fmt.Sprint(err),
						"failure": "a verification config that matches the package source is not the one chosen (with none chosen the signature gate is skipped)"})
					t.Errorf("VERIF-REPRODUCED %s", rep)
					return
				}
			}
		}
	}
	rep, _ := json.Marshal(map[string]any{"cases_checked": checked})
	fmt.Printf("VERIF-BOUNDED %s\n", rep)
}
