// Bounded stand-in for the assembly of the provider roles (C18; labelled bounded, never counted
// as proved). Injected into internal/controller/rbac/provider/roles with `go test -overlay`.
//
// The real RenderClusterRoles is run on every list of at most 3 resources drawn from
// {g1,g2} x {p1,p2} (duplicates and every order included: 85 lists) combined with every list of
// at most 2 permission requests drawn from 3 sample rules (13 lists), and the result is compared
// with a reference written from the property text:
//   no resources -> no roles; otherwise exactly three roles (edit, view, system), each
//   controlled by the revision;
//   the system role's rules are, in this order: one rule per API group among the resources
//   (groups in order of first appearance after the stable sort by plural+group) naming only
//   that group and exactly <plural>, <plural>/status of the resources of that group, with the
//   system verbs; one rule granting update on */finalizers in exactly those groups; the fixed
//   baseline (secrets, configmaps, events, leases in the core and coordination groups); the
//   revision's permission requests, verbatim;
//   the edit and view roles have only the per-group rules, with verbs * resp. get/list/watch.
package roles

import (
	"encoding/json"
	"fmt"
	"os"
	"reflect"
	"sort"
	"testing"

	rbacv1 "k8s.io/api/rbac/v1"
	metav1 "k8s.io/apimachinery/pkg/apis/meta/v1"
	"k8s.io/apimachinery/pkg/types"

	v1 "github.com/crossplane/crossplane/apis/pkg/v1"
)

func refSystemRules(rs []Resource, reqs []rbacv1.PolicyRule, verbs []string, system bool) []rbacv1.PolicyRule {
	sorted := append([]Resource(nil), rs...)
	sort.SliceStable(sorted, func(i, j int) bool { return sorted[i].Plural+sorted[i].Group < sorted[j].Plural+sorted[j].Group })
	var groups []string
	byGroup := map[string][]string{}
	for _, r := range sorted {
		if _, ok := byGroup[r.Group]; !ok {
			groups = append(groups, r.Group)
		}
		byGroup[r.Group] = append(byGroup[r.Group], r.Plural, r.Plural+"/status")
	}
	out := []rbacv1.PolicyRule{}
	for _, g := range groups {
		out = append(out, rbacv1.PolicyRule{APIGroups: []string{g}, Resources: byGroup[g], Verbs: verbs})
	}
	if !system {
		return out
	}
	out = append(out, rbacv1.PolicyRule{APIGroups: groups, Resources: []string{"*/finalizers"}, Verbs: []string{"update"}})
	out = append(out, rbacv1.PolicyRule{APIGroups: []string{"", "coordination.k8s.io"}, Resources: []string{"secrets", "configmaps", "events", "leases"}, Verbs: []string{"*"}})
	return append(out, reqs...)
}

func TestVerifBoundedRender(t *testing.T) {
	univ := []Resource{{Group: "g1", Plural: "p1"}, {Group: "g1", Plural: "p2"}, {Group: "g2", Plural: "p1"}, {Group: "g2", Plural: "p2"}}
	var lists [][]Resource
	var gen func(cur []Resource, n int)
	gen = func(cur []Resource, n int) {
		lists = append(lists, append([]Resource(nil), cur...))
		if n == 0 {
			return
		}
		for _, r := range univ {
			gen(append(cur, r), n-1)
		}
	}
	gen(nil, 3)
	sample := []rbacv1.PolicyRule{
		{APIGroups: []string{"apps"}, Resources: []string{"deployments"}, Verbs: []string{"get"}},
		{NonResourceURLs: []string{"/metrics"}, Verbs: []string{"get"}},
		{APIGroups: []string{"*"}, Resources: []string{"*"}, ResourceNames: []string{"x"}, Verbs: []string{"*"}},
	}
	reqLists := [][]rbacv1.PolicyRule{nil}
	for _, a := range sample {
		reqLists = append(reqLists, []rbacv1.PolicyRule{a})
		for _, b := range sample {
			reqLists = append(reqLists, []rbacv1.PolicyRule{a, b})
		}
	}
	checked := 0
	fail := func(rs []Resource, reqs []rbacv1.PolicyRule, msg string) {
		rep, _ := json.Marshal(map[string]any{"resources": rs, "requests": reqs, "failure": msg})
		t.Errorf("VERIF-REPRODUCED %s", rep)
	}
	for _, rs := range lists {
		for _, reqs := range reqLists {
			checked++
			pr := &v1.ProviderRevision{ObjectMeta: metav1.ObjectMeta{Name: "rev", UID: types.UID("uid-1")}}
			pr.Status.PermissionRequests = reqs
			in := append([]Resource(nil), rs...)
			got := RenderClusterRoles(pr, in)
			if len(rs) == 0 {
				if len(got) != 0 {
					fail(rs, reqs, fmt.Sprintf("roles rendered without resources: %d", len(got)))
					return
				}
				continue
			}
			if len(got) != 3 {
				fail(rs, reqs, fmt.Sprintf("want 3 roles, got %d", len(got)))
				return
			}
			wants := [][]rbacv1.PolicyRule{
				refSystemRules(rs, reqs, []string{"*"}, false),
				refSystemRules(rs, reqs, []string{"get", "list", "watch"}, false),
				refSystemRules(rs, reqs, []string{"get", "list", "watch", "update", "patch", "create"}, true),
			}
			names := []string{"crossplane:provider:rev:aggregate-to-edit", "crossplane:provider:rev:aggregate-to-view", SystemClusterRoleName("rev")}
			for i := range got {
				if got[i].Name != names[i] {
					fail(rs, reqs, fmt.Sprintf("role %d is named %q, want %q", i, got[i].Name, names[i]))
					return
				}
				if !reflect.DeepEqual(got[i].Rules, wants[i]) {
					fail(rs, reqs, fmt.Sprintf("role %s has rules %v, reference says %v", got[i].Name, got[i].Rules, wants[i]))
					return
				}
				refs := got[i].GetOwnerReferences()
				if len(refs) != 1 || refs[0].UID != pr.GetUID() || refs[0].Controller == nil || !*refs[0].Controller {
					fail(rs, reqs, fmt.Sprintf("role %s is not controlled by the revision: %v", got[i].Name, refs))
					return
				}
			}
		}
	}
	_ = os.Getenv
	rep, _ := json.Marshal(map[string]any{"resource_lists": len(lists), "request_lists": len(reqLists), "combinations_checked": checked})
	fmt.Printf("VERIF-BOUNDED %s\n", rep)
}
