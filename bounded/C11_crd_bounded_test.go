// Bounded stand-in for the schema part of C11 (labelled bounded, never counted as proved).
// Injected into internal/xcrd with `go test -overlay`; runs the real ForCompositeResource and
// ForCompositeResourceClaim.
//
// XRDs are enumerated over: the author's spec properties = every subset of {own key, and three
// machinery keys of the composite resp. claim}, the author's status properties = every subset of
// {own key, conditions, connectionDetails, claimConditionTypes}, author required lists and a
// validation rule present or not, one or two versions with every choice of served/referenceable
// flags, default update / delete policy set or not (4096+ XRDs). Reference, from the property
// text: every version is carried with its name and served flag, storage == referenceable, status
// subresource on; every machinery property is present with its standard schema whatever the
// author wrote under that name (only the declared default is added to the policy fields);
// every other author property is present unchanged; the author's required lists and rules are
// present; composite CRD cluster scoped, claim CRD namespaced, both controlled by the XRD.
package xcrd

import (
	"encoding/json"
	"fmt"
	"reflect"
	"testing"

	extv1 "k8s.io/apiextensions-apiserver/pkg/apis/apiextensions/v1"
	metav1 "k8s.io/apimachinery/pkg/apis/meta/v1"
	"k8s.io/apimachinery/pkg/runtime"
	"k8s.io/apimachinery/pkg/types"

	xpv1 "github.com/crossplane/crossplane-runtime/apis/common/v1"

	v1 "github.com/crossplane/crossplane/apis/apiextensions/v1"
)

func boundedAuthorProp(name string) extv1.JSONSchemaProps {
	return extv1.JSONSchemaProps{Type: "integer", Description: "author's " + name}
}

func boundedSubsetsOf(keys []string) [][]string {
	var out [][]string
	for m := 0; m < 1<<len(keys); m++ {
		var s []string
		for i, k := range keys {
			if m&(1<<i) != 0 {
				s = append(s, k)
			}
		}
		out = append(out, s)
	}
	return out
}

func checkBoundedCRD(crd *extv1.CustomResourceDefinition, xrd *v1.CompositeResourceDefinition, machinery map[string]extv1.JSONSchemaProps,
	policyKey string, policy *string, specKeys, statusKeys []string, withExtras bool, scope extv1.ResourceScope) string {
	if crd.Spec.Scope != scope || crd.Spec.Group != xrd.Spec.Group {
		return fmt.Sprintf("scope/group %q %q", crd.Spec.Scope, crd.Spec.Group)
	}
	refs := crd.GetOwnerReferences()
	if len(refs) != 1 || refs[0].UID != xrd.GetUID() || refs[0].Controller == nil || !*refs[0].Controller {
		return fmt.Sprintf("not controlled by the XRD: %v", refs)
	}
	if len(crd.Spec.Versions) != len(xrd.Spec.Versions) {
		return "version count"
	}
	storage, referenceable := 0, 0
	for i, v := range crd.Spec.Versions {
		xv := xrd.Spec.Versions[i]
		if xv.Referenceable {
			referenceable++
		}
		if v.Storage {
			storage++
		}
		if v.Name != xv.Name || v.Served != xv.Served || v.Storage != xv.Referenceable {
			return fmt.Sprintf("version %d identity: %v vs %v", i, v, xv)
		}
		if v.Subresources == nil || v.Subresources.Status == nil {
			return "status subresource off"
		}
		spec := v.Schema.OpenAPIV3Schema.Properties["spec"]
		status := v.Schema.OpenAPIV3Schema.Properties["status"]
		for k, want := range machinery {
			if k == policyKey && policy != nil {
				want.Default = &extv1.JSON{Raw: []byte(fmt.Sprintf("%q", *policy))}
			}
			if got, ok := spec.Properties[k]; !ok || !reflect.DeepEqual(got, want) {
				return fmt.Sprintf("version %s: machinery spec field %q altered or missing: %v", v.Name, k, got)
			}
		}
		for k, want := range CompositeResourceStatusProps() {
			if got, ok := status.Properties[k]; !ok || !reflect.DeepEqual(got, want) {
				return fmt.Sprintf("version %s: machinery status field %q altered or missing: %v", v.Name, k, got)
			}
		}
		for _, k := range specKeys {
			if _, isMachinery := machinery[k]; isMachinery {
				continue
			}
			if got, ok := spec.Properties[k]; !ok || !reflect.DeepEqual(got, boundedAuthorProp(k)) {
				return fmt.Sprintf("version %s: author spec property %q lost: %v", v.Name, k, got)
			}
		}
		for _, k := range statusKeys {
			if _, isMachinery := CompositeResourceStatusProps()[k]; isMachinery {
				continue
			}
			if got, ok := status.Properties[k]; !ok || !reflect.DeepEqual(got, boundedAuthorProp(k)) {
				return fmt.Sprintf("version %s: author status property %q lost: %v", v.Name, k, got)
			}
		}
		if len(spec.Properties) != len(machinery)+countNonMachinery(specKeys, machinery) {
			return fmt.Sprintf("version %s: unexpected spec properties %v", v.Name, spec.Properties)
		}
		if withExtras {
			if !reflect.DeepEqual(spec.Required, []string{"own"}) || len(spec.XValidations) != 1 || spec.XValidations[0].Rule != "self.own > 0" {
				return fmt.Sprintf("version %s: author's required list / rule lost: %v %v", v.Name, spec.Required, spec.XValidations)
			}
			if !reflect.DeepEqual(status.Required, []string{"own"}) {
				return fmt.Sprintf("version %s: author's status required list lost: %v", v.Name, status.Required)
			}
		}
	}
	if storage != referenceable {
		return "storage versions != referenceable versions"
	}
	return ""
}

func countNonMachinery(keys []string, machinery map[string]extv1.JSONSchemaProps) int {
	n := 0
	for _, k := range keys {
		if _, ok := machinery[k]; !ok {
			n++
		}
	}
	return n
}

func TestVerifBoundedCRD(t *testing.T) {
	specChoices := boundedSubsetsOf([]string{"own", "compositionRef", "claimRef", "resourceRefs", "resourceRef", "writeConnectionSecretToRef"})
	statusChoices := boundedSubsetsOf([]string{"own", "conditions", "connectionDetails", "claimConditionTypes"})
	flags := [][]v1.CompositeResourceDefinitionVersion{
		{{Name: "v1", Served: true, Referenceable: true}},
		{{Name: "v1", Served: true, Referenceable: false}, {Name: "v2", Served: true, Referenceable: true}},
		{{Name: "v1", Served: false, Referenceable: true}, {Name: "v2", Served: true, Referenceable: false}},
	}
	auto, fg := "Automatic", "Foreground"
	checked := 0
	for _, specKeys := range specChoices {
		for _, statusKeys := range statusChoices {
			for _, withExtras := range []bool{false, true} {
				for _, versions := range flags {
					for _, withPolicy := range []bool{false, true} {
						checked++
						schema := extv1.JSONSchemaProps{Type: "object", Properties: map[string]extv1.JSONSchemaProps{
							"spec":   {Type: "object", Properties: map[string]extv1.JSONSchemaProps{}},
							"status": {Type: "object", Properties: map[string]extv1.JSONSchemaProps{}},
						}}
						sp, st := schema.Properties["spec"], schema.Properties["status"]
						for _, k := range specKeys {
							sp.Properties[k] = boundedAuthorProp(k)
						}
						for _, k := range statusKeys {
							st.Properties[k] = boundedAuthorProp(k)
						}
						if withExtras {
							sp.Required = []string{"own"}
							sp.XValidations = extv1.ValidationRules{{Rule: "self.own > 0"}}
							st.Required = []string{"own"}
						}
						schema.Properties["spec"], schema.Properties["status"] = sp, st
						raw, _ := json.Marshal(schema)
						xrd := &v1.CompositeResourceDefinition{ObjectMeta: metav1.ObjectMeta{Name: "xthings.example.org", UID: types.UID("xrd-uid")}}
						xrd.Spec.Group = "example.org"
						xrd.Spec.Names = extv1.CustomResourceDefinitionNames{Kind: "XThing", Plural: "xthings", ListKind: "XThingList", Singular: "xthing"}
						xrd.Spec.ClaimNames = &extv1.CustomResourceDefinitionNames{Kind: "Thing", Plural: "things", ListKind: "ThingList", Singular: "thing"}
						for _, v := range versions {
							v.Schema = &v1.CompositeResourceValidation{OpenAPIV3Schema: runtime.RawExtension{Raw: raw}}
							xrd.Spec.Versions = append(xrd.Spec.Versions, v)
						}
						var up *string
						var dp *string
						if withPolicy {
							p := xpv1.UpdatePolicy(auto)
							xrd.Spec.DefaultCompositionUpdatePolicy = &p
							d := xpv1.CompositeDeletePolicy(fg)
							xrd.Spec.DefaultCompositeDeletePolicy = &d
							up, dp = &auto, &fg
						}
						fail := func(what, msg string) {
							rep, _ := json.Marshal(map[string]any{"derived": what, "author_spec_properties": specKeys, "author_status_properties": statusKeys,
								"author_required_and_rules": withExtras, "versions": versions, "default_policies": withPolicy, "failure": msg})
							t.Errorf("VERIF-REPRODUCED %s", rep)
						}
						xr, err := ForCompositeResource(xrd)
						if err != nil {
							fail("composite", err.Error())
							return
						}
						if msg := checkBoundedCRD(xr, xrd, CompositeResourceSpecProps(), "compositionUpdatePolicy", up, specKeys, statusKeys, withExtras, extv1.ClusterScoped); msg != "" {
							fail("composite", msg)
							return
						}
						xc, err := ForCompositeResourceClaim(xrd)
						if err != nil {
							fail("claim", err.Error())
							return
						}
						if msg := checkBoundedCRD(xc, xrd, CompositeResourceClaimSpecProps(), "compositeDeletePolicy", dp, specKeys, statusKeys, withExtras, extv1.NamespaceScoped); msg != "" {
							fail("claim", msg)
							return
						}
					}
				}
			}
		}
	}
	rep, _ := json.Marshal(map[string]any{"xrds_checked": checked, "crds_derived": 2 * checked})
	fmt.Printf("VERIF-BOUNDED %s\n", rep)
}
