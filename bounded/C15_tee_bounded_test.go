// Bounded stand-in for the stream plumbing between image, parser and package cache (C15;
// labelled bounded, never counted as proved). Injected into internal/xpkg with `go test -overlay`.
//
// On a cold reconcile the revision reconciler hands the parser TeeReadCloser(image stream,
// cache pipe); on every later reconcile the parser reads what the cache stored. The property
// needs both to be the same bytes: whatever the consumer of the tee was given must have been
// written to the cache writer, for every way an io.Reader may legally deliver its data -
// in particular the last bytes together with io.EOF (what archive/tar's entry reader does), a
// separate (0, io.EOF), zero-length reads, and an error in mid stream. Every script of at most
// 4 chunks of 0..3 bytes x 3 endings x consumer buffers of 1, 2 and 8 bytes is run through the
// real TeeReadCloser (and JoinedReadCloser on top of it, as in the reconciler); Close must close
// both ends.
package xpkg

import (
	"bytes"
	"encoding/json"
	"errors"
	"fmt"
	"io"
	"testing"
)

type verifScriptReader struct {
	chunks [][]byte
	ending int // 0: last bytes come with io.EOF, 1: separate (0, EOF), 2: error after the data
	closed bool
}

var errVerifScript = errors.New("scripted read error")

func (s *verifScriptReader) Read(p []byte) (int, error) {
	for len(s.chunks) > 0 && len(s.chunks[0]) == 0 && len(s.chunks) > 1 {
		s.chunks = s.chunks[1:]
		return 0, nil // a zero-length read is legal
	}
	if len(s.chunks) == 0 {
		if s.ending == 2 {
			return 0, errVerifScript
		}
		return 0, io.EOF
	}
	n := copy(p, s.chunks[0])
	s.chunks[0] = s.chunks[0][n:]
	if len(s.chunks[0]) == 0 {
		s.chunks = s.chunks[1:]
		if len(s.chunks) == 0 {
			switch s.ending {
			case 0:
				return n, io.EOF
			case 2:
				return n, errVerifScript
			}
		}
	}
	return n, nil
}
func (s *verifScriptReader) Close() error { s.closed = true; return nil }

type verifSink struct {
	bytes.Buffer
	closed bool
}

func (s *verifSink) Close() error { s.closed = true; return nil }

func TestVerifBoundedTee(t *testing.T) {
	var scripts [][]int
	var gen func(cur []int, n int)
	gen = func(cur []int, n int) {
		scripts = append(scripts, append([]int(nil), cur...))
		if n == 0 {
			return
		}
		for sz := 0; sz <= 3; sz++ {
			gen(append(cur, sz), n-1)
		}
	}
	gen(nil, 4)
	checked := 0
	for _, sc := range scripts {
		for ending := 0; ending < 3; ending++ {
			for _, bufsz := range []int{1, 2, 8} {
				for _, joined := range []bool{false, true} {
					checked++
					var chunks [][]byte
					var all []byte
					b := byte('a')
					for _, sz := range sc {
						c := make([]byte, sz)
						for i := range c {
							c[i] = b
							b++
						}
						chunks = append(chunks, c)
						all = append(all, c...)
					}
					src := &verifScriptReader{chunks: chunks, ending: ending}
					sink := &verifSink{}
					var rc io.ReadCloser = TeeReadCloser(src, sink)
					if joined {
						rc = JoinedReadCloser(rc, rc)
					}
					var got []byte
					buf := make([]byte, bufsz)
					var rerr error
					for i := 0; i < 100; i++ {
						n, err := rc.Read(buf)
						got = append(got, buf[:n]...)
						if err != nil {
							rerr = err
							break
						}
					}
					cerr := rc.Close()
					fail := func(msg string) {
						rep, _ := json.Marshal(map[string]any{"chunk_sizes": sc, "ending": []string{"data+EOF", "separate EOF", "data+error"}[ending], "consumer_buffer": bufsz, "joined": joined,
							"source": string(all), "consumer_got": string(got), "writer_got": sink.String(), "failure": msg})
						t.Errorf("VERIF-REPRODUCED %s", rep)
					}
					switch {
					case !bytes.Equal(got, sink.Bytes()):
						fail("the consumer (parser) and the writer (package cache) received different bytes")
						return
					case !bytes.Equal(got, all):
						fail("the consumer did not receive the source stream")
						return
					case ending != 2 && !errors.Is(rerr, io.EOF):
						fail(fmt.Sprintf("stream did not end with io.EOF: %v", rerr))
						return
					case ending == 2 && !errors.Is(rerr, errVerifScript):
						fail(fmt.Sprintf("the source's error was not reported: %v", rerr))
						return
					case cerr != nil || !src.closed || !sink.closed:
						fail(fmt.Sprintf("Close did not close both ends: err=%v source closed=%v writer closed=%v", cerr, src.closed, sink.closed))
						return
					}
				}
			}
		}
	}
	rep, _ := json.Marshal(map[string]any{"scripts": len(scripts), "cases_checked": checked})
	fmt.Printf("VERIF-BOUNDED %s\n", rep)
}
