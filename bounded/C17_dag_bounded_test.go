// Bounded stand-in for the DAG interface contract used by the C17 proofs (labelled bounded,
// never counted as proved). Injected into internal/dag with `go test -overlay` and run against
// the real MapDag and MapUpgradingDag, with the real v1beta1.LockPackage / Dependency nodes.
//
// Every lock over N package slots is enumerated: every subset of slots present in the lock, and
// for the present ones every set of dependency edges to any slot (self-loops, diamonds, cycles
// and dependencies on absent packages included). N <= VERIF_DAG_N exhaustively (default 4:
// 83 521 locks); with VERIF_DAG_SAMPLES > 0 additionally that many random locks over 5 and 6
// slots drawn from VERIF_SEED. Checked against a reference oracle:
//   Init    returns no error, and the identifiers it returns as implied are exactly the
//           dependency targets absent from the lock;
//   Sort    fails iff the dependency graph has a cycle;
//   TraceNode(p) has exactly the packages reachable from p by one or more edges as keys;
//   GetNode / NodeExists agree with the set of present and implied packages;
//   (upgrading DAG) every node has collected exactly the constraints of the edges pointing at it.
package dag_test

import (
	"encoding/json"
	"fmt"
	"math/rand"
	"os"
	"sort"
	"strconv"
	"testing"

	"github.com/crossplane/crossplane/apis/pkg/v1beta1"
	"github.com/crossplane/crossplane/internal/dag"
)

type boundedLock struct {
	N       int
	Present []bool
	Edge    [][]bool
}

func (l boundedLock) String() string {
	s := ""
	for i := 0; i < l.N; i++ {
		if !l.Present[i] {
			continue
		}
		s += fmt.Sprintf("p%d->[", i)
		for j := 0; j < l.N; j++ {
			if l.Edge[i][j] {
				s += fmt.Sprintf("p%d ", j)
			}
		}
		s += "] "
	}
	return s
}

func (l boundedLock) packages() []v1beta1.LockPackage {
	var out []v1beta1.LockPackage
	for i := 0; i < l.N; i++ {
		if !l.Present[i] {
			continue
		}
		lp := v1beta1.LockPackage{Name: fmt.Sprintf("n%d", i), Source: fmt.Sprintf("p%d", i), Version: "1.0.0"}
		for j := 0; j < l.N; j++ {
			if l.Edge[i][j] {
				// every edge carries its own constraint (all satisfied by the installed 1.0.0), so
				// that the parent constraints a node collects can be told apart
				lp.Dependencies = append(lp.Dependencies, v1beta1.Dependency{Package: fmt.Sprintf("p%d", j), Constraints: fmt.Sprintf(">=0.%d.%d", i, j)})
			}
		}
		out = append(out, lp)
	}
	return out
}

// reach[i][j]: j reachable from i by one or more edges (edges leave present packages only)
func (l boundedLock) reach() [][]bool {
	r := make([][]bool, l.N)
	for i := range r {
		r[i] = make([]bool, l.N)
		for j := 0; j < l.N; j++ {
			r[i][j] = l.Present[i] && l.Edge[i][j]
		}
	}
	for k := 0; k < l.N; k++ {
		for i := 0; i < l.N; i++ {
			for j := 0; j < l.N; j++ {
				if r[i][k] && r[k][j] {
					r[i][j] = true
				}
			}
		}
	}
	return r
}

func checkBoundedLock(name string, d dag.DAG, l boundedLock) string {
	id := func(i int) string { return "p" + strconv.Itoa(i) }
	implied, err := d.Init(v1beta1.ToNodes(l.packages()...))
	if err != nil {
		return fmt.Sprintf("%s.Init failed: %v", name, err)
	}
	wantImplied := map[string]bool{}
	for i := 0; i < l.N; i++ {
		for j := 0; j < l.N; j++ {
			if l.Present[i] && l.Edge[i][j] && !l.Present[j] {
				wantImplied[id(j)] = true
			}
		}
	}
	gotImplied := map[string]bool{}
	for _, n := range implied {
		gotImplied[n.Identifier()] = true
	}
	if fmt.Sprint(keys(gotImplied)) != fmt.Sprint(keys(wantImplied)) {
		return fmt.Sprintf("%s.Init implied %v, want %v", name, keys(gotImplied), keys(wantImplied))
	}
	r := l.reach()
	cyclic := false
	for i := 0; i < l.N; i++ {
		if r[i][i] {
			cyclic = true
		}
	}
	if _, err := d.Sort(); (err != nil) != cyclic {
		return fmt.Sprintf("%s.Sort error=%v, graph cyclic=%v", name, err, cyclic)
	}
	for i := 0; i < l.N; i++ {
		known := l.Present[i] || wantImplied[id(i)]
		if d.NodeExists(id(i)) != known {
			return fmt.Sprintf("%s.NodeExists(%s)=%v, want %v", name, id(i), !known, known)
		}
		n, err := d.GetNode(id(i))
		if (err == nil) != known || (known && n.Identifier() != id(i)) {
			return fmt.Sprintf("%s.GetNode(%s) wrong: %v %v", name, id(i), n, err)
		}
		if known && name == "MapUpgradingDag" {
			// the version-upgrade path chooses among versions that satisfy every parent: a node
			// must have collected the constraint of every edge that points at it
			want := map[string]bool{}
			for p := 0; p < l.N; p++ {
				if l.Present[p] && l.Edge[p][i] {
					want[fmt.Sprintf(">=0.%d.%d", p, i)] = true
				}
			}
			got := map[string]bool{}
			for _, c := range n.GetParentConstraints() {
				got[c] = true
			}
			if fmt.Sprint(keys(got)) != fmt.Sprint(keys(want)) {
				return fmt.Sprintf("%s: node %s collected parent constraints %v, want %v", name, id(i), keys(got), keys(want))
			}
		}
		if !l.Present[i] {
			continue
		}
		tree, err := d.TraceNode(id(i))
		if err != nil {
			return fmt.Sprintf("%s.TraceNode(%s) failed: %v", name, id(i), err)
		}
		want := map[string]bool{}
		for j := 0; j < l.N; j++ {
			if r[i][j] {
				want[id(j)] = true
			}
		}
		got := map[string]bool{}
		for k, n := range tree {
			got[k] = true
			if n == nil || n.Identifier() != k {
				return fmt.Sprintf("%s.TraceNode(%s): key %s maps to a different node", name, id(i), k)
			}
		}
		if fmt.Sprint(keys(got)) != fmt.Sprint(keys(want)) {
			return fmt.Sprintf("%s.TraceNode(%s) = %v, want %v", name, id(i), keys(got), keys(want))
		}
	}
	return ""
}

func keys(m map[string]bool) []string {
	var out []string
	for k := range m {
		out = append(out, k)
	}
	sort.Strings(out)
	return out
}

func TestVerifBoundedDAG(t *testing.T) {
	maxN := 4
	if v, err := strconv.Atoi(os.Getenv("VERIF_DAG_N")); err == nil && v > 0 {
		maxN = v
	}
	samples, _ := strconv.Atoi(os.Getenv("VERIF_DAG_SAMPLES"))
	seed, _ := strconv.ParseInt(os.Getenv("VERIF_SEED"), 10, 64)
	count := map[string]int{}
	impls := map[string]func() dag.DAG{"MapDag": dag.NewMapDag, "MapUpgradingDag": dag.NewUpgradingMapDag}
	run := func(l boundedLock) bool {
		for name, mk := range impls {
			count[name]++
			if msg := checkBoundedLock(name, mk(), l); msg != "" {
				rep, _ := json.Marshal(map[string]any{"lock": l.String(), "failure": msg})
				t.Errorf("VERIF-REPRODUCED %s", rep)
				return false
			}
		}
		return true
	}
	for n := 1; n <= maxN; n++ {
		for pres := 0; pres < 1<<n; pres++ {
			var rows []int
			for i := 0; i < n; i++ {
				if pres&(1<<i) != 0 {
					rows = append(rows, i)
				}
			}
			bits := len(rows) * n
			for e := 0; e < 1<<bits; e++ {
				l := boundedLock{N: n, Present: make([]bool, n), Edge: make([][]bool, n)}
				for i := range l.Edge {
					l.Edge[i] = make([]bool, n)
				}
				for k, i := range rows {
					l.Present[i] = true
					for j := 0; j < n; j++ {
						l.Edge[i][j] = e&(1<<(k*n+j)) != 0
					}
				}
				if !run(l) {
					return
				}
			}
		}
	}
	rng := rand.New(rand.NewSource(seed))
	for s := 0; s < samples; s++ {
		n := 5 + rng.Intn(2)
		l := boundedLock{N: n, Present: make([]bool, n), Edge: make([][]bool, n)}
		for i := range l.Edge {
			l.Edge[i] = make([]bool, n)
			l.Present[i] = rng.Intn(4) != 0
			for j := 0; j < n; j++ {
				l.Edge[i][j] = rng.Intn(4) == 0
			}
		}
		if !run(l) {
			return
		}
	}
	rep, _ := json.Marshal(map[string]any{"exhaustive_up_to_slots": maxN, "sampled_5_6_slots": samples, "seed": seed, "locks_checked_per_implementation": count})
	fmt.Printf("VERIF-BOUNDED %s\n", rep)
}
