package v1

// Bounded stand-in (labelled bounded, never counted as proved) for (*Composition).Hash: the
// content hash separates Compositions that differ in one label, one annotation (reserved
// Kubernetes domains included) or one spec field, and is equal for equal content.

import (
	"encoding/json"
	"fmt"
	"testing"

	metav1 "k8s.io/apimachinery/pkg/apis/meta/v1"
	"k8s.io/utils/ptr"
)

func TestVerifBoundedHash(t *testing.T) {
	base := func() *Composition {
		return &Composition{
			ObjectMeta: metav1.ObjectMeta{Name: "comp", Labels: map[string]string{"channel": "dev"}, Annotations: map[string]string{"note": "a"}},
			Spec:       CompositionSpec{CompositeTypeRef: TypeReference{APIVersion: "example.org/v1", Kind: "XThing"}, Mode: ptr.To(CompositionModePipeline), Pipeline: []PipelineStep{{Step: "s", FunctionRef: FunctionReference{Name: "f"}}}},
		}
	}
	keys := []string{"channel", "app.kubernetes.io/version", "example.k8s.io/x", "kubernetes.io/y", "plain"}
	edits := map[string]func(*Composition){}
	for _, k := range keys {
		k := k
		edits["label "+k+" set to v2"] = func(c *Composition) { c.Labels[k] = "v2" }
		edits["annotation "+k+" set to v2"] = func(c *Composition) { c.Annotations[k] = "v2" }
	}
	edits["pipeline step renamed"] = func(c *Composition) { c.Spec.Pipeline[0].Step = "other" }
	edits["function changed"] = func(c *Composition) { c.Spec.Pipeline[0].FunctionRef.Name = "g" }
	edits["type ref kind changed"] = func(c *Composition) { c.Spec.CompositeTypeRef.Kind = "XOther" }
	checked := 0
	fail := func(what, msg string) {
		rep, _ := json.Marshal(map[string]any{"edit": what, "failure": msg})
		t.Errorf("VERIF-REPRODUCED %s", rep)
	}
	h0 := base().Hash()
	if h0 != base().Hash() {
		fail("none", "equal content hashes differently")
	}
	for what, e := range edits {
		checked++
		c := base()
		// start from a composition that already carries every key with v1, so that an edit changes a value
		for _, k := range keys {
			if _, ok := c.Labels[k]; !ok {
				c.Labels[k] = "v1"
			}
			if _, ok := c.Annotations[k]; !ok {
				c.Annotations[k] = "v1"
			}
		}
		before := c.Hash()
		e(c)
		if c.Hash() == before {
			fail(what, fmt.Sprintf("the content hash is still %s: the controller finds 'the revision of the current content' and never captures the edit", before[:12]))
			return
		}
	}
	rep, _ := json.Marshal(map[string]any{"edits_checked": checked})
	fmt.Printf("VERIF-BOUNDED %s\n", rep)
}
