#!/usr/bin/env python3
"""Must-fail selftest: applies each mutant (an exact text replacement in a /repo file) to the
working tree, runs the quick check of the properties it should break, and reverts it.
A mutant marked harmless must NOT raise an alarm. /repo must be clean (tracked files)."""
import json, os, subprocess, sys, glob, time
V = os.path.dirname(os.path.dirname(os.path.abspath(__file__)))
REPO = os.environ.get('VERIF_REPO', '/repo')

def sh(cmd, **kw):
    return subprocess.run(cmd, shell=True, text=True, capture_output=True, **kw)

def main():
    only = sys.argv[1:]
    exact = False
    if only and only[0] == '--exact':  # the arguments are whole mutant names (used by tools/parcorpus.sh)
        exact, only = True, only[1:]
    dirty = sh(f"git -C {REPO} status --porcelain --untracked-files=no").stdout.strip()
    if dirty:
        print("refusing: /repo has uncommitted changes to tracked files:\n" + dirty); return 2
    files = sorted(glob.glob(os.path.join(V, 'selftest', 'mutants', '*.json')))
    bad = 0
    rows = []
    for f in files:
        m = json.load(open(f))
        name = os.path.basename(f)[:-5]
        if exact and name not in only:
            continue
        if not exact and only and not any(o in name or o in m.get('props', []) for o in only):
            continue
        try:
            edits = m['edits'] if 'edits' in m else [m]
            for e in edits:
                p = os.path.join(REPO, e['file'])
                s = open(p).read()
                if s.count(e['old']) != 1:
                    raise RuntimeError(f"{name}: anchor text occurs {s.count(e['old'])} times in {e['file']}")
                open(p, 'w').write(s.replace(e['old'], e['new']))
            for prop in m['props']:
                t0 = time.time()
                r = sh(f"VERIF_EVIDENCE_DIR=/tmp/verif-selftest-evidence {V}/check {prop} quick", cwd=V)
                viol = 'VIOLATION property=' + prop in r.stdout
                want = not m.get('harmless', False)
                ok = (viol == want) and r.returncode == (1 if want else 0)
                which = [l.split('failed obligation: ')[1] for l in r.stdout.splitlines() if l.startswith('failed obligation: ')]
                rows.append((name, prop, 'caught' if viol else ('check-did-not-run (does the mutant compile?)' if r.returncode not in (0, 1) else 'silent'), 'OK' if ok else 'UNEXPECTED', f"{time.time()-t0:.0f}s", '; '.join(w.split(' (')[0] for w in which)[:200]))
                if not ok:
                    bad += 1
                    if r.returncode not in (0, 1):
                        print(r.stdout[-1500:], r.stderr[-1500:])
        except Exception as ex:
            rows.append((name, '-', 'error', str(ex), '', ''))
            bad += 1
        finally:
            sh(f"git -C {REPO} checkout -- .")
    for r in rows:
        print(' | '.join(r))
    print(f"{len(rows)} runs, {bad} unexpected")
    return 1 if bad else 0

if __name__ == '__main__':
    sys.exit(main())
