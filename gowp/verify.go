package main

import (
	"fmt"
	"go/token"
	"go/types"
	"sort"
	"strings"

	"golang.org/x/tools/go/ssa"
)

type FuncResult struct {
	Key        string
	Obls       []*Obligation
	Notes      map[string]int
	Assumed    map[string]int
	Blocks     int
	Instrs     int
	Passes     int
	LoopsNoInv int
	Err        string
}

type verifyOpts struct {
	sweep  bool
	covers bool
}

func verifyFunction(L *Loaded, DB *SpecDB, fn *ssa.Function, spec *FuncSpec, opts verifyOpts) (res *FuncResult) {
	res = &FuncResult{Key: funcKey(fn)}
	defer func() {
		if r := recover(); r != nil {
			res.Err = fmt.Sprintf("generator panic: %v", r)
			panic(r)
		}
	}()
	arrays := map[string]string{}
	loopMods := map[string]map[string]bool{}
	keyDecls := map[string]string{}
	var x *Exec
	for pass := 1; pass <= 8; pass++ {
		x = &Exec{L: L, DB: DB, smt: newSMT(), arrays: arrays, notes: map[string]int{}, assumed: map[string]int{},
			typeIDs: map[string]int{}, typeOf: map[int]types.Type{}, sweep: opts.sweep || (spec != nil && spec.Sweep), fnKey: funcKey(fn), covers: opts.covers,
			globalsInit: map[string]bool{}, loopMods: loopMods, keyDecls: keyDecls, private: map[*ssa.Alloc]bool{}}
		for _, name := range sortedKeys(keyDecls) {
			x.smt.funs[name] = "datatype"
			x.smt.decls = append(x.smt.decls, keyDecls[name])
		}
		if spec != nil {
			for _, s := range spec.Sites {
				s.matched = 0
			}
		}
		x.runTop(fn, spec)
		res.Passes = pass
		if !x.grew {
			break
		}
	}
	res.Obls = x.obls
	res.Notes = x.notes
	res.Assumed = x.assumed
	res.Blocks = len(fn.Blocks)
	for _, b := range fn.Blocks {
		res.Instrs += len(b.Instrs)
	}
	for _, li := range x.root.loops {
		if li.spec == nil {
			res.LoopsNoInv++
		}
	}
	return res
}

func (x *Exec) runTop(fn *ssa.Function, spec *FuncSpec) {
	m := x.smt
	fr := x.newFrame(fn, nil)
	fr.spec = spec
	x.root = fr
	st := &State{allocLow: "0", pc: "true", cells: map[*Cell]Value{}, heap: map[string]Term{}, ghost: map[string]Value{}, binds: map[string]Value{}}
	for _, name := range sortedKeys(x.arrays) {
		st.heap[name] = m.constant(name+"@0", x.arrays[name])
	}
	// effect counters
	for _, g := range []string{"writes"} {
		st.ghost[g] = Scalar{T: m.constant("ghost."+g+"@0", SInt), Sort: SInt, Typ: types.Typ[types.Int]}
	}
	// parameters
	for i, p := range fn.Params {
		v := m.freshValue(p.Type(), "p."+p.Name())
		x.constrainParam(v, i == 0 && fn.Signature.Recv() != nil)
		fr.reg[p] = v
		fr.params[p.Name()] = v
	}
	for _, fv := range fn.FreeVars {
		v := m.freshValue(fv.Type(), "fv."+fv.Name())
		x.constrainParam(v, true)
		fr.reg[fv] = v
		fr.freevars[fv.Name()] = v
	}
	if spec != nil {
		for _, ls := range spec.Loops {
			ls.matched = false // per pass
		}
	}
	if errs := fr.bindLoopSpecs(); len(errs) > 0 {
		// A loop clause whose loop is not in this function may have moved, with its loop, into a
		// module-local helper that is inlined here (extract-function refactor): the clause then
		// goes with the loop, and is evaluated in the helper's scope (ghosts and metavariables are
		// the same; locals resolve there by name).
		x.orphanLoops = map[*ssa.Function][]*LoopSpec{}
		var orphans []*LoopSpec
		for _, ls := range spec.Loops {
			if !ls.matched {
				orphans = append(orphans, ls)
			}
		}
		seen := map[*ssa.Function]bool{fn: true}
		var walk func(f *ssa.Function, depth int)
		walk = func(f *ssa.Function, depth int) {
			if depth >= 3 {
				return
			}
			for _, b := range f.Blocks {
				for _, ins := range b.Instrs {
					ci, ok := ins.(ssa.CallInstruction)
					if !ok {
						continue
					}
					cal := ci.Common().StaticCallee()
					if cal == nil || seen[cal] || !inModule(cal) || len(cal.Blocks) == 0 {
						continue
					}
					seen[cal] = true
					tmp := x.newFrame(cal, fr)
					for _, ls := range orphans {
						if ls.matched {
							continue
						}
						tmp.spec = &FuncSpec{Loops: []*LoopSpec{ls}}
						if len(tmp.bindLoopSpecs()) == 0 {
							x.orphanLoops[cal] = append(x.orphanLoops[cal], ls)
						}
						for _, li := range tmp.loops {
							li.spec = nil
						}
					}
					walk(cal, depth+1)
				}
			}
		}
		walk(fn, 0)
		// last resort for a clause found neither here nor in a helper: its recorded position
		stillOrphan := false
		for _, ls := range orphans {
			if !ls.matched {
				stillOrphan = true
			}
		}
		if stillOrphan {
			fr.allowOrdinalFallback = true
			save := spec.Loops
			var rest []*LoopSpec
			for _, ls := range orphans {
				if !ls.matched {
					rest = append(rest, ls)
				}
			}
			fr.spec = &FuncSpec{Loops: rest}
			fr.bindLoopSpecs()
			fr.spec = spec
			spec.Loops = save
		}
		for _, ls := range orphans {
			if !ls.matched {
				e := fmt.Sprintf("loop %q not found", ls.Selector)
				x.genError(fr, "loop", e, fmt.Errorf("%s", e), fn.Pos())
			} else {
				x.note(fmt.Sprintf("loop clause %q follows its loop into an inlined helper", ls.Selector))
			}
		}
	}
	// a let-bound metavariable is arbitrary until a matching call binds it
	if spec != nil && len(spec.Lets) > 0 {
		// the function's own blocks and those of the module-local helpers it calls (a matching
		// call may sit in a helper that is inlined, e.g. after an extract-function refactor)
		var scan []*ssa.BasicBlock
		seenFn := map[*ssa.Function]bool{fn: true}
		var collect func(f *ssa.Function, depth int)
		collect = func(f *ssa.Function, depth int) {
			scan = append(scan, f.Blocks...)
			if depth >= 3 {
				return
			}
			for _, b := range f.Blocks {
				for _, ins := range b.Instrs {
					if ci, ok := ins.(ssa.CallInstruction); ok {
						if cal := ci.Common().StaticCallee(); cal != nil && !seenFn[cal] && inModule(cal) && len(cal.Blocks) > 0 {
							seenFn[cal] = true
							collect(cal, depth+1)
						}
					}
				}
			}
		}
		collect(fn, 0)
		for _, b := range scan {
			for _, ins := range b.Instrs {
				ci, ok := ins.(ssa.CallInstruction)
				if !ok {
					continue
				}
				c := ci.Common()
				key, full := calleeKey(c)
				for _, ld := range spec.Lets {
					if _, done := st.binds[ld.Var]; done || !calleeMatches(ld.Pattern, key, full) {
						continue
					}
					var t types.Type
					sig := c.Signature()
					off := 0
					if c.IsInvoke() || sig.Recv() != nil {
						off = 1
					}
					switch ld.Kind {
					case "result":
						if ld.N < sig.Results().Len() {
							t = sig.Results().At(ld.N).Type()
						}
					case "arg":
						if ld.N == 0 && off == 1 {
							if c.IsInvoke() {
								t = c.Value.Type()
							} else if sig.Recv() != nil {
								t = sig.Recv().Type()
							}
						} else if ld.N-off >= 0 && ld.N-off < sig.Params().Len() {
							t = sig.Params().At(ld.N - off).Type()
						}
					case "recv":
						if c.IsInvoke() {
							t = c.Value.Type()
						} else if sig.Recv() != nil {
							t = sig.Recv().Type()
						}
					}
					if t != nil {
						st.binds[ld.Var] = m.freshValue(t, "unbound."+strings.TrimPrefix(ld.Var, "$"))
					}
				}
			}
		}
	}
	x.entry = st.clone()
	if spec != nil {
		for _, g := range spec.Ghosts {
			env := x.newEnv(fr, st)
			env.pos = fn.Pos()
			v, err := env.eval(g.Init)
			if err != nil {
				x.genError(fr, "ghost", g.Name, err, fn.Pos())
				continue
			}
			st.ghost[g.Name] = v
		}
		for _, r := range spec.Requires {
			env := x.newEnv(fr, st)
			env.pos = fn.Pos()
			for k, v := range fr.params {
				env.vars[k] = v
			}
			env.assumeMode = true
			t, err := env.evalBool(r.E)
			if err != nil {
				x.genError(fr, "requires", r.Label, err, fn.Pos())
				continue
			}
			m.assume(t)
		}
	}
	// package-level variables named by "globals" hold their initial values (assumption: they
	// are treated as constants by the code base)
	if spec != nil {
		for _, g := range spec.Globals {
			for _, p := range x.L.Prog.AllPackages() {
				if p.Pkg.Path() == g || strings.HasSuffix(p.Pkg.Path(), "/"+g) {
					p.Build()
					if initFn := p.Func("init"); initFn != nil && len(initFn.Blocks) > 0 {
						x.inInit = true
						x.assumed["package-level variables of "+p.Pkg.Path()+" hold their initial values"]++
						x.inlineInit(fr, st, initFn)
						x.inInit = false
					}
				}
			}
		}
	}
	x.entry = st.clone()
	x.runBody(fr, st)
	// postconditions at every return
	var retPCs []Term
	for _, r := range fr.rets {
		retPCs = append(retPCs, r.st.pc)
		if spec == nil {
			continue
		}
		for _, en := range spec.Ensures {
			pos := r.pos
			if !pos.IsValid() {
				pos = fnEnd(fn)
			}
			x.obligeClause(fr, r.st, en, "post", "return", func(e *Env) {
				bindResults(e, r.val)
				// named results
				if fn.Signature.Results() != nil {
					for i := 0; i < fn.Signature.Results().Len(); i++ {
						n := fn.Signature.Results().At(i).Name()
						if n == "" || n == "_" {
							continue
						}
						if tv, ok := r.val.(TupleV); ok && i < len(tv.E) {
							e.vars[n] = tv.E[i]
						} else if i == 0 && r.val != nil {
							e.vars[n] = r.val
						}
					}
				}
				e.old = x.entry
			}, pos)
		}
	}
	if x.covers {
		// vacuity guard: the last return (in block order) must be reachable under the requires
		// and every assumed contract applied on the way (one path keeps the query small)
		last := "false"
		if len(retPCs) > 0 {
			last = retPCs[len(retPCs)-1]
		}
		o := &Obligation{Kind: "cover", Fn: x.fnKey, Anchor: "return", Label: "reachable", Cover: true, PC: last, Goal: "true"}
		if spec != nil {
			o.Props = allProps(spec)
		}
		x.addObligation(o)
	}
	if spec != nil {
		for _, s := range spec.Sites {
			if s.Must && s.matched == 0 {
				x.genError(fr, "site:"+s.Label, "anchor", fmt.Errorf("no call to %s found in %s (anchor missing)", s.Pattern, x.fnKey), fn.Pos())
			}
		}
	}
	// merge obligations of the same clause at different returns: keep as they are (names get #k)
}

func fnEnd(fn *ssa.Function) token.Pos {
	if syn := fn.Syntax(); syn != nil {
		return syn.End() - 1
	}
	return fn.Pos()
}

// constrainParam: pointers held by parameters predate every allocation of this activation.
func (x *Exec) constrainParam(v Value, nonNil bool) {
	m := x.smt
	switch vv := v.(type) {
	case PtrV:
		m.assume(preexisting(vv.Ref))
		if nonNil {
			m.assume(Not(Eq(vv.Ref, NilRef)))
		}
	case MapV:
		m.assume(preexisting(vv.Ref))
	case SliceV:
		m.assume(preexisting(vv.Arr))
	case IfaceV:
		m.assume(preexisting(vv.Data))
		m.assume("(>= " + vv.Tag + " 0)")
		if nonNil {
			m.assume("(> " + vv.Tag + " 0)")
		}
	case StructV:
		for _, f := range vv.F {
			x.constrainParam(f, false)
		}
	}
}

// preexisting: a reference received from the caller is not one allocated by this activation
// (allocations use negative base ids).
func preexisting(r Term) Term {
	return "(>= (rootid " + r + ") 0)"
}

// summarise notes for evidence
func topNotes(notes map[string]int, n int) []string {
	type kv struct {
		k string
		v int
	}
	var l []kv
	for k, v := range notes {
		l = append(l, kv{k, v})
	}
	sort.Slice(l, func(i, j int) bool {
		if l[i].v != l[j].v {
			return l[i].v > l[j].v
		}
		return l[i].k < l[j].k
	})
	var out []string
	for i, e := range l {
		if i >= n {
			out = append(out, fmt.Sprintf("... and %d more kinds", len(l)-n))
			break
		}
		out = append(out, fmt.Sprintf("%s (x%d)", e.k, e.v))
	}
	return out
}

func hasProp(props []string, p string) bool {
	for _, q := range props {
		if q == p {
			return true
		}
	}
	return false
}

func specMentions(fs *FuncSpec, prop string) bool {
	if hasProp(fs.Props, prop) {
		return true
	}
	for _, c := range fs.Requires {
		if hasProp(c.Props, prop) {
			return true
		}
	}
	for _, c := range fs.Ensures {
		if hasProp(c.Props, prop) {
			return true
		}
	}
	for _, s := range fs.Sites {
		for _, c := range s.Asserts {
			if hasProp(c.Props, prop) {
				return true
			}
		}
	}
	for _, l := range fs.Loops {
		for _, c := range l.Invariants {
			if hasProp(c.Props, prop) {
				return true
			}
		}
	}
	return false
}

func stripRepo(s string) string { return strings.TrimPrefix(s, repoDir()+"/") }

// allProps lists every property mentioned anywhere in a function's contract.
func allProps(fs *FuncSpec) []string {
	var out []string
	add := func(ps []string) {
		for _, p := range ps {
			if !hasProp(out, p) {
				out = append(out, p)
			}
		}
	}
	add(fs.Props)
	for _, c := range fs.Requires {
		add(c.Props)
	}
	for _, c := range fs.Ensures {
		add(c.Props)
	}
	for _, s := range fs.Sites {
		for _, c := range s.Asserts {
			add(c.Props)
		}
	}
	for _, l := range fs.Loops {
		for _, c := range l.Invariants {
			add(c.Props)
		}
	}
	return out
}
