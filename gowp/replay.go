package main

import (
	"bytes"
	"context"
	"encoding/json"
	"fmt"
	"os"
	"os/exec"
	"path/filepath"
	"strings"
	"time"
)

// replayFile is what a VIOLATION line points at when a concretiser exists.
type replayFile struct {
	Mode       string            `json:"mode"` // "model": witness values of the solver's model made concrete; "search": failing input searched among small inputs
	Property   string            `json:"property"`
	Obligation string            `json:"obligation"`
	Label      string            `json:"label"`
	Clause     string            `json:"clause"`
	Function   string            `json:"function"`
	PkgDir     string            `json:"pkg_dir"`  // relative to the repository root
	Template   string            `json:"template"` // test source injected with go test -overlay
	Values     map[string]string `json:"values"`   // witness values from the solver model
	Solver     string            `json:"solver"`
	Output     string            `json:"output,omitempty"`
	Reproduced bool              `json:"reproduced"`
}

type searchResult struct {
	reproduced bool
	out        string
}

// searchDone: result of a search-mode concretiser per function, within one check run.
var searchDone = map[string]searchResult{}

func templateFor(fn string) string {
	return filepath.Join(verifDir(), "replay", fileSafe(fn)+"_replay_test.go")
}

// tryReplay concretises the solver model of a failed obligation into a real in-package test
// (go test -overlay) where a concretiser exists for the function. Returns the replay file and
// whether the failure was reproduced on the real code.
func tryReplay(dir, prop string, o *Obligation) (string, bool) {
	tmpl := templateFor(o.Fn)
	src, err := os.ReadFile(tmpl)
	if err != nil || o.PkgDir == "" {
		return "", false
	}
	// A concretiser marked "verif:search" does not need witness values: it looks for a failing
	// input of the function among small inputs and checks the contract's postconditions restated
	// in Go (used when the solver's model is over abstract objects or there is no model at all).
	search := strings.Contains(string(src), "// verif:search")
	if len(o.Values) == 0 && !search {
		return "", false
	}
	if o.Values == nil {
		o.Values = map[string]string{}
	}
	os.MkdirAll(dir, 0o755)
	rf := &replayFile{Property: prop, Obligation: o.Name, Label: o.Label, Clause: o.Src, Function: o.Fn, PkgDir: o.PkgDir,
		Template: tmpl, Values: o.Values, Solver: o.Solver, Mode: map[bool]string{true: "search", false: "model"}[search]}
	path := filepath.Join(dir, fileSafe(o.Name)+".replay.json")
	var reproduced bool
	var out string
	if c, ok := searchDone[o.Fn]; ok && search && len(o.Values) == 0 {
		reproduced, out = c.reproduced, c.out // the search does not depend on the obligation
	} else {
		reproduced, out = runReplay(rf, path)
		if search && len(o.Values) == 0 {
			searchDone[o.Fn] = searchResult{reproduced, out}
		}
	}
	rf.Reproduced = reproduced
	rf.Output = out
	b, _ := json.MarshalIndent(rf, "", " ")
	os.WriteFile(path, append(b, '\n'), 0o644)
	if !reproduced {
		return path, false
	}
	return path, true
}

// runReplay injects the template as an in-package test and runs it against the real code.
// The template's TestVerifReplay fails with a line containing VERIF-REPRODUCED when the
// violation manifests.
func runReplay(rf *replayFile, modelPath string) (bool, string) {
	pkgDir := filepath.Join(repoDir(), rf.PkgDir)
	mb, _ := json.Marshal(rf)
	mfile := modelPath + ".model"
	os.WriteFile(mfile, mb, 0o644)
	ov := map[string]map[string]string{"Replace": {filepath.Join(pkgDir, "zz_verif_replay_test.go"): rf.Template}}
	ob, _ := json.Marshal(ov)
	ovFile := modelPath + ".overlay.json"
	os.WriteFile(ovFile, ob, 0o644)
	ctx, cancel := context.WithTimeout(context.Background(), 240*time.Second)
	defer cancel()
	cmd := exec.CommandContext(ctx, "go", "test", "-overlay", ovFile, "-vet=off", "-count=1", "-timeout", "60s", "-run", "^TestVerifReplay$", ".")
	cmd.Dir = pkgDir
	cmd.Env = append(os.Environ(), "GOFLAGS=-mod=mod", "GOPROXY=off", "GOSUMDB=off", "GOTOOLCHAIN=local", "VERIF_MODEL="+mfile)
	var out bytes.Buffer
	cmd.Stdout = &out
	cmd.Stderr = &out
	err := cmd.Run()
	text := out.String()
	if len(text) > 20000 {
		text = text[:20000]
	}
	return err != nil && strings.Contains(text, "VERIF-REPRODUCED"), text
}

func cmdReplay(args []string) int {
	if len(args) < 1 {
		fmt.Fprintln(os.Stderr, "usage: gowp replay <file>")
		return 2
	}
	b, err := os.ReadFile(args[0])
	if err != nil {
		fmt.Fprintln(os.Stderr, err)
		return 2
	}
	if !strings.HasSuffix(args[0], ".json") {
		// a text replay: no concretiser exists; show it
		os.Stdout.Write(b)
		fmt.Println("\nno-failing-input-found: this obligation has no concretiser; re-run the property check to re-decide it")
		return 1
	}
	var rf replayFile
	if err := json.Unmarshal(b, &rf); err != nil {
		fmt.Fprintln(os.Stderr, err)
		return 2
	}
	ok, out := runReplay(&rf, args[0]+".rerun")
	fmt.Println(out)
	if ok {
		fmt.Printf("VIOLATION property=%s replay=%s\n", rf.Property, args[0])
		return 1
	}
	fmt.Println("not reproduced on the current tree")
	return 0
}
