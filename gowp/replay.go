package main

// tryReplay concretises the solver model of a failed obligation into a real in-package test
// (go test -overlay) where a concretiser exists for the obligation family. Returns the replay
// file and whether the failure was reproduced on the real code.
func tryReplay(dir, prop string, o *Obligation) (string, bool) {
	return "", false
}
