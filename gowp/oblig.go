package main

import (
	"bytes"
	"context"
	"fmt"
	"go/ast"
	"go/token"
	"os"
	"os/exec"
	"path/filepath"
	"strings"
	"sync"
	"time"

	"golang.org/x/tools/go/ast/astutil"
)

type Obligation struct {
	Second       string `json:"-"` // thorough tier: the answer of a second, different solver
	SecondSolver string `json:"-"`
	pruneAlt bool
	pruned   int
	weakSide bool
	AsFact   Term     `json:"-"` // the clause as it is assumed after being checked
	Name     string   `json:"name"`
	Props    []string `json:"props"`
	Kind     string   `json:"kind"` // post site inv-init inv-step pre safe cover lemma frame anchor
	Fn       string   `json:"fn"`
	Anchor   string   `json:"anchor"`
	Label    string   `json:"label"`
	Src      string   `json:"src"`
	Pos      string   `json:"pos"`
	PC       Term     `json:"-"`
	Goal     Term     `json:"-"`
	Cover    bool     `json:"cover"`
	GenErr   string   `json:"gen_error,omitempty"`

	nDecls, nFacts, nStr int
	smt                  *SMT
	NameSensitive        []string `json:"name_sensitive,omitempty"`
	Watch                []watch  `json:"-"`

	InBaseline bool              `json:"-"`
	Values     map[string]string `json:"values,omitempty"` // witness values read from the model
	PkgDir     string            `json:"pkg_dir,omitempty"`

	// results
	Status  string  `json:"status"` // discharged | failed | unknown | generr | covered | vacuous
	Solver  string  `json:"solver"`
	Seconds float64 `json:"seconds"`
	File    string  `json:"file"`
	Model   string  `json:"model,omitempty"`
	Detail  string  `json:"detail,omitempty"`
}

type watch struct {
	Name string
	Term Term
}

func (x *Exec) addObligation(o *Obligation) {
	o.smt = x.smt
	o.nDecls, o.nFacts, o.nStr = len(x.smt.decls), len(x.smt.facts), len(x.smt.strOrder)
	if o.Name == "" {
		o.Name = fmt.Sprintf("%s/%s:%s/%s", o.Fn, o.Kind, o.Anchor, o.Label)
	}
	// unique names
	base := o.Name
	for i := 2; ; i++ {
		dup := false
		for _, p := range x.obls {
			if p.Name == o.Name {
				dup = true
				break
			}
		}
		if !dup {
			break
		}
		o.Name = fmt.Sprintf("%s#%d", base, i)
	}
	x.obls = append(x.obls, o)
}

// obligeClause generates "pc ⇒ clause" at state st.
func (x *Exec) obligeClause(fr *Frame, st *State, c *Clause, kind, anchor string, setup func(*Env), pos token.Pos) {
	env := x.newEnv(fr, st)
	env.pos = pos
	if setup != nil {
		setup(env)
	}
	o := &Obligation{Kind: kind, Fn: x.fnKey, Anchor: anchor, Label: c.Label, Props: c.Props, Src: c.Src, Pos: x.pos(pos)}
	var goal Term
	var err error
	if env.siteWhere != nil {
		w, werr := env.evalBool(env.siteWhere)
		if werr != nil && env.siteOptional {
			x.note("optional site's where clause not evaluable here; site skipped: " + werr.Error())
			return
		}
		err = werr
		if err == nil {
			goal, err = env.evalBool(c.E)
			if err != nil && env.siteOptional {
				// The assertion cannot even be stated at this call (it names something that is
				// not in scope here): then this must not be a call the where clause selects.
				x.note("assertion not expressible at this optional site; proving the site is not selected: " + err.Error())
				goal, err = "false", nil
			}
			goal = Implies(w, goal)
		}
	} else {
		goal, err = env.evalBool(c.E)
	}
	if err != nil {
		o.GenErr = err.Error()
		o.Status = "generr"
	}
	o.AsFact = goal
	if err == nil && strings.Contains(goal, "(forall ") {
		// the same clause in the form in which it is assumed once checked (side conditions of
		// dependency contracts attach differently to a fact than to a goal, see Env.quant)
		env.assumeMode = true
		if f, ferr := env.evalBool(c.E); ferr == nil {
			if env.siteWhere != nil {
				if w, werr := env.evalBool(env.siteWhere); werr == nil {
					o.AsFact = Implies(w, f)
				}
			} else {
				o.AsFact = f
			}
		}
		env.assumeMode = false
	}
	o.PC, o.Goal = st.pc, goal
	o.NameSensitive = env.nameSens
	x.addObligation(o)
}

func (x *Exec) obligeCover(fr *Frame, st *State, anchor string, pos token.Pos) {
	if !x.covers {
		return
	}
	o := &Obligation{Kind: "cover", Fn: x.fnKey, Anchor: anchor, Label: "reachable", Cover: true, PC: st.pc, Goal: "true", Pos: x.pos(pos)}
	if fr.spec != nil {
		o.Props = fr.spec.Props
	}
	x.addObligation(o)
}

func (x *Exec) genError(fr *Frame, anchor, label string, err error, pos token.Pos) {
	o := &Obligation{Kind: "anchor", Fn: x.fnKey, Anchor: anchor, Label: label, GenErr: err.Error(), Status: "generr", Pos: x.pos(pos), PC: "true", Goal: "true"}
	if fr.spec != nil {
		o.Props = fr.spec.Props
	}
	x.addObligation(o)
}

// exprTextAt returns the source text of the innermost expression at pos.
func (x *Exec) exprTextAt(fr *Frame, pos token.Pos) string {
	for _, p := range x.L.Pkgs {
		for _, f := range p.Syntax {
			if f.Pos() <= pos && pos < f.End() {
				path, _ := astutil.PathEnclosingInterval(f, pos, pos+1)
				for _, n := range path {
					if e, ok := n.(ast.Expr); ok {
						s := nodeText(x.L.Prog.Fset, e)
						s = strings.Join(strings.Fields(s), " ")
						if len(s) > 60 {
							s = s[:60]
						}
						return s
					}
				}
			}
		}
	}
	return ""
}

// smtText renders the query for this obligation.
func (o *Obligation) smtText(wantModel bool) string {
	return o.smtTextOpt(wantModel, false)
}

// smtTextOpt renders the query; with dropQuant the quantified assumptions are left out (the
// weaker query can only be used to look for candidate counterexamples, never to prove).
// smtTextPruned renders the query without the assumptions that alternate quantifiers (a forall
// containing an exists or the other way round). Leaving assumptions out can only make a proof
// harder, never wrong: "unsat" for the pruned query implies "unsat" for the full one, and no
// other answer of the pruned query is used. Such facts (e.g. "every parsed version comes from
// some tag") are what most often sends the solvers into long instantiation chains while being
// irrelevant to the obligation at hand.
func (o *Obligation) smtTextPruned() (string, bool) {
	o.pruneAlt = true
	defer func() { o.pruneAlt = false }()
	o.pruned = 0
	t := o.smtTextOpt(false, false)
	return t, o.pruned > 0
}

func (o *Obligation) smtTextOpt(wantModel, dropQuant bool) string {
	m := o.smt
	var b strings.Builder
	if wantModel {
		b.WriteString("(set-option :produce-models true)\n")
	}
	b.WriteString("(set-logic ALL)\n")
	b.WriteString("; obligation " + o.Name + "\n; " + strings.ReplaceAll(o.Src, "\n", " ") + "\n")
	b.WriteString(m.prelude())
	for _, d := range m.decls[:o.nDecls] {
		b.WriteString(d)
		b.WriteByte('\n')
	}
	// string literal facts
	if o.nStr > 1 {
		var cs []string
		for _, s := range m.strOrder[:o.nStr] {
			cs = append(cs, m.strlits[s])
		}
		b.WriteString("(assert (distinct " + strings.Join(cs, " ") + "))\n")
	}
	for _, s := range m.strOrder[:o.nStr] {
		fmt.Fprintf(&b, "(assert (= (strlen %s) %d))\n", m.strlits[s], len(s))
	}
	for _, f := range m.facts[:o.nFacts] {
		if dropQuant && (strings.Contains(f, "(forall ") || strings.Contains(f, "(exists ")) {
			continue
		}
		if o.pruneAlt && strings.Contains(f, "(forall ") && strings.Contains(f, "(exists ") {
			o.pruned++
			continue
		}
		b.WriteString("(assert " + f + ")\n")
	}
	b.WriteString("(assert " + o.PC + ")\n")
	if !o.Cover {
		b.WriteString("(assert (not " + o.Goal + "))\n")
	}
	b.WriteString("(check-sat)\n")
	text := b.String()
	// universal facts with side conditions (see Env.quant): conjoined in the main query,
	// guarded in the auxiliary "weak" one
	if o.weakSide {
		return strings.ReplaceAll(text, "(SIDE! ", "(=> ")
	}
	return strings.ReplaceAll(text, "(SIDE! ", "(and ")
}

// smtTextWeak renders the query with guarded side conditions; ok is false when there are none.
func (o *Obligation) smtTextWeak() (string, bool) {
	o.weakSide = true
	defer func() { o.weakSide = false }()
	t := o.smtTextOpt(false, false)
	for _, f := range o.smt.facts[:o.nFacts] {
		if strings.Contains(f, "(SIDE! ") {
			return t, true
		}
	}
	return t, false
}

type solverSpec struct {
	name string
	args func(file string, timeoutS int) []string
}

var solvers = []solverSpec{
	{"z3-new", func(f string, t int) []string { return []string{"z3-new", fmt.Sprintf("-T:%d", t), f} }},
	{"cvc5", func(f string, t int) []string {
		return []string{"cvc5", "--lang", "smt2", fmt.Sprintf("--tlimit=%d", t*1000), f}
	}},
	{"z3", func(f string, t int) []string { return []string{"z3", fmt.Sprintf("-T:%d", t), f} }},
}

func runSolver(s solverSpec, file string, timeoutS int) (string, float64, string) {
	return runSolverCtx(context.Background(), s, file, timeoutS)
}

func runSolverCtx(parent context.Context, s solverSpec, file string, timeoutS int) (string, float64, string) {
	ctx, cancel := context.WithTimeout(parent, time.Duration(timeoutS+5)*time.Second)
	defer cancel()
	a := s.args(file, timeoutS)
	cmd := exec.CommandContext(ctx, a[0], a[1:]...)
	var out bytes.Buffer
	cmd.Stdout = &out
	cmd.Stderr = &out
	t0 := time.Now()
	_ = cmd.Run()
	dt := time.Since(t0).Seconds()
	text := out.String()
	for _, l := range strings.Split(text, "\n") {
		switch l = strings.TrimSpace(l); l {
		case "sat", "unsat", "unknown":
			return l, dt, text
		}
		if strings.HasPrefix(l, "(error") {
			break
		}
	}
	if strings.Contains(text, "timeout") {
		return "timeout", dt, text
	}
	if parent.Err() != nil {
		return "cancelled", dt, text
	}
	return "error", dt, text
}

type solverRun struct {
	s   solverSpec
	res string
	dt  float64
	out string
}

// raceSolvers runs the whole portfolio on one query at once; the first definite answer
// (sat or unsat) wins and the other solvers are stopped.
func raceSolvers(file string, aux map[string]string, timeoutS int) []solverRun {
	ctx, cancel := context.WithCancel(context.Background())
	defer cancel()
	n := len(solvers)
	ch := make(chan solverRun, n+2*len(aux))
	for _, s := range solvers {
		go func(s solverSpec) {
			res, dt, out := runSolverCtx(ctx, s, file, timeoutS)
			ch <- solverRun{s, res, dt, out}
		}(s)
	}
	// auxiliary queries have fewer or weaker assumptions than the main one (see smtTextPruned,
	// smtTextWeak): "unsat" carries over to the main query, no other answer means anything
	for tag, f := range aux {
		for _, s := range solvers[:2] {
			n++
			go func(s solverSpec, tag, f string) {
				res, dt, out := runSolverCtx(ctx, s, f, timeoutS)
				if res != "unsat" {
					res = tag + "-" + res
				}
				ch <- solverRun{solverSpec{name: s.name + "/" + tag, args: s.args}, res, dt, out}
			}(s, tag, f)
		}
	}
	var runs []solverRun
	for i := 0; i < n; i++ {
		r := <-ch
		runs = append(runs, r)
		if r.res == "sat" || r.res == "unsat" {
			cancel()
			break
		}
	}
	return runs
}

// discharge runs the solver portfolio on every obligation.
func discharge(obls []*Obligation, dir string, timeoutS int, workers int) {
	os.MkdirAll(dir, 0o755)
	var wg sync.WaitGroup
	ch := make(chan *Obligation)
	for w := 0; w < workers; w++ {
		wg.Add(1)
		go func() {
			defer wg.Done()
			for o := range ch {
				dischargeOne(o, dir, timeoutS)
			}
		}()
	}
	for _, o := range obls {
		if o.Status == "generr" {
			continue
		}
		ch <- o
	}
	close(ch)
	wg.Wait()
	// Undecided proof obligations are re-run one at a time with a longer budget: a timeout
	// under sixteen-fold solver contention must not be mistaken for a failed proof.
	// The retry only exists to keep a loaded machine from raising a false alarm. Once two retried
	// obligations stay undecided, or anything was refuted, the check fails whatever the rest
	// says; the remaining undecided ones are then reported as they are.
	stillUnknown := 0
	for _, o := range obls {
		if o.Status == "failed" {
			stillUnknown = 2
		}
	}
	for _, o := range obls {
		if o.Status == "unknown" && !o.Cover {
			if stillUnknown >= 2 {
				o.Detail = "not retried (the check already fails): " + o.Detail
				continue
			}
			first := o.Detail
			o.Seconds = 0
			dischargeOne(o, dir, timeoutS*4)
			o.Detail = "retry: " + o.Detail + " | first: " + first
			if o.Status == "unknown" {
				stillUnknown++
			}
		}
	}
}

func fileSafe(s string) string {
	r := strings.NewReplacer("/", "_", " ", "_", "(", "", ")", "", "*", "p", ":", "_", "$", "S", "[", "_", "]", "_", "\"", "", "'", "", "<", "lt", ">", "gt", "|", "_", "&", "_", ";", "_", ",", "_", "=", "_", "!", "n")
	s = r.Replace(s)
	if len(s) > 150 {
		s = s[:150] + fmt.Sprintf("_%x", hashStr(s))
	}
	return s
}

func dischargeOne(o *Obligation, dir string, timeoutS int) {
	file := filepath.Join(dir, fileSafe(o.Name)+".smt2")
	o.File = file
	if o.Goal == "true" && !o.Cover {
		o.Status, o.Solver = "discharged", "trivial"
		return
	}
	text := o.smtText(false)
	if err := os.WriteFile(file, []byte(text), 0o644); err != nil {
		o.Status, o.Detail = "unknown", err.Error()
		return
	}
	want := "unsat"
	if o.Cover {
		want = "sat"
	}
	var details []string
	if o.Cover && timeoutS > 5 {
		timeoutS = 5 // reachability covers: one solver, short budget (they only guard against vacuity)
	}
	// Stage 1: the fastest solver alone for a short slice. Stage 2 (proof obligations only):
	// the whole portfolio at once, first definite answer wins.
	stage1 := timeoutS
	if !o.Cover && stage1 > 2 {
		stage1 = 2
	}
	var runs []solverRun
	{
		res, dt, out := runSolver(solvers[0], file, stage1)
		runs = append(runs, solverRun{solvers[0], res, dt, out})
		o.Seconds += dt
	}
	if r := runs[0]; !o.Cover && r.res != "sat" && r.res != "unsat" && timeoutS > stage1 {
		t0 := time.Now()
		aux := map[string]string{}
		if pt, any := o.smtTextPruned(); any {
			f := strings.TrimSuffix(file, ".smt2") + ".pruned.smt2"
			if os.WriteFile(f, []byte(pt), 0o644) == nil {
				aux["pruned"] = f
			}
		}
		if wt, any := o.smtTextWeak(); any {
			f := strings.TrimSuffix(file, ".smt2") + ".weak.smt2"
			if os.WriteFile(f, []byte(wt), 0o644) == nil {
				aux["weak"] = f
			}
		}
		more := raceSolvers(file, aux, timeoutS)
		o.Seconds += time.Since(t0).Seconds()
		runs = append(runs, more...)
	}
	for _, r := range runs {
		details = append(details, fmt.Sprintf("%s:%s(%.2fs)", r.s.name, r.res, r.dt))
		if r.res == "error" {
			details = append(details, trunc(strings.ReplaceAll(r.out, "\n", " "), 300))
		}
	}
	for _, r := range runs {
		s := r.s
		switch {
		case r.res == want:
			o.Solver = s.name
			if o.Cover {
				o.Status = "covered"
			} else {
				o.Status = "discharged"
			}
			o.Detail = strings.Join(details, " ")
			return
		case r.res == "sat" && !o.Cover:
			o.Solver = s.name
			o.Status = "failed"
			o.Detail = strings.Join(details, " ")
			o.Model = getModel(o, file, s, timeoutS)
			return
		case r.res == "unsat" && o.Cover:
			o.Solver = s.name
			o.Status = "vacuous"
			o.Detail = strings.Join(details, " ")
			return
		}
	}
	o.Status = "unknown"
	if !o.Cover && len(o.Watch) > 0 {
		// No verdict. Look for a candidate counterexample in the query without its quantified
		// assumptions; it counts only if it replays on the real code.
		qf := strings.TrimSuffix(file, ".smt2") + ".candidate.smt2"
		text := o.smtTextOpt(true, true)
		for _, w := range o.Watch {
			text += "(get-value (" + w.Term + "))\n"
		}
		if os.WriteFile(qf, []byte(text), 0o644) == nil {
			res, dt, out := runSolver(solvers[0], qf, timeoutS)
			o.Seconds += dt
			details = append(details, fmt.Sprintf("candidate-search:%s(%.2fs)", res, dt))
			if res == "sat" {
				o.Status = "candidate"
				o.Solver = solvers[0].name
				o.Values = map[string]string{}
				rest := out
				if i := strings.Index(rest, "\n"); i >= 0 {
					rest = rest[i+1:]
				}
				for _, w := range o.Watch {
					val, r2, ok := nextGetValue(rest)
					if !ok {
						break
					}
					o.Values[w.Name] = val
					rest = r2
				}
			}
		}
	}
	if o.Cover {
		// vacuity guard: what matters is that the path condition is not refuted. When the solver
		// cannot decide the full query, decide it without the quantified assumptions: if even
		// that part is contradictory the path is vacuous for sure; if it is satisfiable the
		// ground part of the contract (requires, path conditions, site facts) is consistent.
		o.Status = "cover-inconclusive"
		gf := strings.TrimSuffix(file, ".smt2") + ".ground.smt2"
		if os.WriteFile(gf, []byte(o.smtTextOpt(false, true)), 0o644) == nil {
			res, dt, _ := runSolver(solvers[0], gf, timeoutS)
			o.Seconds += dt
			details = append(details, fmt.Sprintf("ground-part:%s(%.2fs)", res, dt))
			switch res {
			case "sat":
				o.Status, o.Solver = "covered-ground", solvers[0].name
			case "unsat":
				o.Status, o.Solver = "vacuous", solvers[0].name
			}
		}
	}
	o.Detail = strings.Join(details, " ")
}

// getModel re-runs the deciding solver with model production and returns the values of the
// declared (non-array) constants.
func getModel(o *Obligation, file string, s solverSpec, timeoutS int) string {
	mfile := strings.TrimSuffix(file, ".smt2") + ".model.smt2"
	base := o.smtText(true)
	mk := func(small bool) string {
		text := base
		if small {
			// prefer a small counterexample: bound every integer witness first
			text = strings.Replace(text, "(check-sat)\n", "", 1)
			for _, w := range o.Watch {
				if o.smt.termIsInt(w.Term) {
					text += "(assert (and (<= (- 6) " + w.Term + ") (<= " + w.Term + " 6)))\n"
				}
			}
			text += "(check-sat)\n"
		}
		for _, w := range o.Watch {
			text += "(get-value (" + w.Term + "))\n"
		}
		return text + "(get-model)\n"
	}
	var out string
	for _, small := range []bool{true, false} {
		if small && len(o.Watch) == 0 {
			continue
		}
		if os.WriteFile(mfile, []byte(mk(small)), 0o644) != nil {
			return ""
		}
		var res string
		res, _, out = runSolver(s, mfile, timeoutS)
		if res == "sat" {
			break
		}
	}
	// the first len(Watch) answers after "sat" are the witness values, one "((term value))" each
	if len(o.Watch) > 0 {
		o.Values = map[string]string{}
		rest := out
		if i := strings.Index(rest, "\n"); i >= 0 {
			rest = rest[i+1:]
		}
		for _, w := range o.Watch {
			val, r2, ok := nextGetValue(rest)
			if !ok {
				break
			}
			o.Values[w.Name] = val
			rest = r2
		}
	}
	if len(out) > 200000 {
		out = out[:200000]
	}
	return out
}

// termIsInt: a cheap syntactic test whether a witness term is integer-sorted (a declared Int
// constant, a literal, or an arithmetic / integer-select application).
func (m *SMT) termIsInt(t Term) bool {
	if s, ok := m.sorts[t]; ok {
		return s == SInt
	}
	if len(t) > 0 && (t[0] >= '0' && t[0] <= '9') {
		return true
	}
	for _, p := range []string{"(+ ", "(- ", "(* ", "(godiv ", "(gorem "} {
		if strings.HasPrefix(t, p) {
			return true
		}
	}
	if strings.HasPrefix(t, "(select ") {
		// (select A i): look up the array's sort
		rest := t[len("(select "):]
		name := rest
		if i := strings.IndexAny(rest, " )"); i > 0 {
			name = rest[:i]
		}
		if strings.HasPrefix(rest, "|") {
			if j := strings.Index(rest[1:], "|"); j >= 0 {
				name = rest[:j+2]
			}
		}
		if s, ok := m.sorts[name]; ok {
			return strings.HasSuffix(s, " Int)") && strings.Count(s, "Array") == 1
		}
	}
	return false
}

// nextGetValue parses one "((term value))" answer and returns the value text.
func nextGetValue(s string) (val, rest string, ok bool) {
	i := strings.Index(s, "((")
	if i < 0 {
		return "", s, false
	}
	depth := 0
	end := -1
	inq := false
	for j := i; j < len(s); j++ {
		c := s[j]
		if c == '|' {
			inq = !inq
		}
		if inq {
			continue
		}
		if c == '(' {
			depth++
		} else if c == ')' {
			depth--
			if depth == 0 {
				end = j
				break
			}
		}
	}
	if end < 0 {
		return "", s, false
	}
	body := s[i+2 : end-1] // "term value"
	// the value is the last balanced s-expression or atom of body
	body = strings.TrimSpace(body)
	k := len(body) - 1
	if k >= 0 && body[k] == ')' {
		d := 0
		for ; k >= 0; k-- {
			if body[k] == ')' {
				d++
			} else if body[k] == '(' {
				d--
				if d == 0 {
					break
				}
			}
		}
	} else {
		for ; k >= 0 && body[k] != ' ' && body[k] != '\n'; k-- {
		}
		k++
	}
	if k < 0 {
		k = 0
	}
	v := strings.TrimSpace(body[k:])
	v = strings.Join(strings.Fields(v), " ")
	if strings.HasPrefix(v, "(- ") {
		v = "-" + strings.TrimSuffix(strings.TrimPrefix(v, "(- "), ")")
	}
	return v, s[end+1:], true
}

// confirm re-decides every discharged obligation with solvers other than the one that
// discharged it (the query file already exists). "unsat" from a second solver confirms the
// proof; "sat" is a disagreement; anything else leaves the obligation decided by one solver only
// (recorded in the evidence, not an alarm).
func confirm(obls []*Obligation, timeoutS, workers int) {
	var wg sync.WaitGroup
	ch := make(chan *Obligation)
	for w := 0; w < workers; w++ {
		wg.Add(1)
		go func() {
			defer wg.Done()
			for o := range ch {
				first := strings.SplitN(o.Solver, "/", 2)
				file := o.File
				if len(first) == 2 {
					// decided on an auxiliary query: confirm that same query
					file = strings.TrimSuffix(o.File, ".smt2") + "." + first[1] + ".smt2"
				}
				for _, s := range solvers {
					if s.name == first[0] {
						continue
					}
					res, dt, _ := runSolver(s, file, timeoutS)
					o.Seconds += dt
					if res == "unsat" || res == "sat" {
						if res == "sat" && len(first) == 2 {
							res = "aux-sat" // means nothing for an auxiliary query
						}
						o.Second, o.SecondSolver = res, s.name
						if res == "unsat" {
							break
						}
					}
				}
			}
		}()
	}
	for _, o := range obls {
		if o.Status == "discharged" && o.Solver != "trivial" && o.File != "" {
			ch <- o
		}
	}
	close(ch)
	wg.Wait()
}
