package main

import (
	"fmt"
	"os"
	"path/filepath"
	"regexp"
	"strings"
)

// Clause is one labelled formula of a contract.
type Clause struct {
	Props []string // property ids this obligation serves
	Label string
	E     Expr
	Src   string
	Line  int
	File  string
}

type GhostDecl struct {
	Name string
	Sort string
	Init Expr
}

type LetDecl struct {
	Var     string
	Kind    string // result | arg | recv
	N       int
	Pattern string // callee pattern
}

type SiteSpec struct {
	Pattern string   // callee pattern
	Args    []string // "_" | "$x" | "$x..."
	Where   Expr
	Label   string
	Asserts []*Clause
	Updates []GhostUpdate
	Binds   []GhostUpdate // metavariable := expr evaluated after the call
	Witness []WitnessSpec // expressions whose model values drive the replay
	Must    bool          // at least one match required (default true)
	Line    int
	matched int
}

// WitnessSpec: "witness name = expr" or "witness name[j<N] = expr".
type WitnessSpec struct {
	Name  string
	Var   string
	Bound int
	E     Expr
}

type GhostUpdate struct {
	Name string
	E    Expr
	Src  string
}

type LoopSpec struct {
	Selector   string
	Invariants []*Clause
	Witness    []WitnessSpec
	Line       int
	matched    bool
}

type FuncSpec struct {
	Key      string
	Keys     []string
	File     string
	Line     int
	Requires []*Clause
	Ensures  []*Clause
	Ghosts   []GhostDecl
	Lets     []LetDecl
	Sites    []*SiteSpec
	Loops    []*LoopSpec
	// dependency-spec attributes
	Kind       string // "", pure, nofx, mf, setmf, havocobj
	MF         string
	MFArgs     []Expr
	SetMF      []GhostUpdate
	HavocElems []int    // arguments (slices, possibly boxed in an interface) whose elements the call rewrites in place
	HavocMF    []string // model fields of argument 0 that the call rewrites (new value constrained by ensures)
	Havoc      []int    // argument indexes (receiver is 0) whose object is havoc'd
	Effects    []string
	Modifies   []string
	Sweep      bool
	Returns    string
	Frame      string   // "fresh-only": the function writes only memory it allocated itself (verified)
	Globals    []string // package path suffixes whose init (global initialisers) runs at entry
	Props      []string // default props for clauses of this function
	Assumed    bool     // contract comes from the dependency library (not verified)
	Trusted    string   // reason, if the contract is used but not verified here
	Used       int
}

type SpecDB struct {
	Funcs   map[string]*FuncSpec // by key
	Pattern []*FuncSpec          // keys containing '*' wildcards
	Defines map[string]*Define
	Macros  map[string]*Macro
	// Verify holds in-repo contracts of functions whose call-site behaviour is given by an
	// assumed contract (frame) in the dependency library: the function is still verified
	// against its own clauses (e.g. a safety sweep), callers keep using the assumed frame.
	Verify map[string]*FuncSpec
}

// Macro: "macro NAME(a, b) = expr" — expanded by evaluating expr with a, b bound.
type Macro struct {
	Name   string
	Params []string
	Body   Expr
}

type Define struct {
	Name   string
	Params []string
	Sorts  []string
	Res    string
	Body   Expr // nil: uninterpreted
}

var tagRe = regexp.MustCompile(`^\[([A-Za-z0-9_,\- ]*)(?::([^\]]+))?\]\s*`)

func parseClause(rest string, fs *FuncSpec, file string, line int) (*Clause, error) {
	c := &Clause{Src: rest, Line: line, File: file}
	if m := tagRe.FindStringSubmatch(rest); m != nil {
		for _, p := range strings.Split(m[1], ",") {
			if p = strings.TrimSpace(p); p != "" {
				c.Props = append(c.Props, p)
			}
		}
		c.Label = m[2]
		rest = rest[len(m[0]):]
		c.Src = rest
	}
	if len(c.Props) == 0 && fs != nil {
		c.Props = fs.Props
	}
	e, err := parseSpecExpr(rest)
	if err != nil {
		return nil, fmt.Errorf("%s:%d: %v", file, line, err)
	}
	c.E = e
	if c.Label == "" {
		c.Label = fmt.Sprintf("L%d", shortHash(rest))
	}
	return c, nil
}

func shortHash(s string) uint32 { return hashStr(strings.Join(strings.Fields(s), " ")) % 100000 }

var topKeywords = map[string]bool{"func": true, "requires": true, "ensures": true, "ghost": true, "let": true, "site": true, "loop": true,
	"define": true, "macro": true, "kind": true, "pure": true, "nofx": true, "fresh": true, "inline": true, "mf": true, "setmf": true, "havocobj": true, "havocelems": true, "havocmf": true, "effect": true, "props": true, "sweep": true, "globals": true, "frame": true,
	"assert": true, "witness": true, "update": true, "bind": true, "invariant": true, "where": true, "optional": true, "trusted": true, "returns": true}

// parseSpecText parses contract text. prefix is "//@" for in-repo files and "" for dependency specs.
func parseSpecText(db *SpecDB, text, file, prefix string, assumed bool) error {
	type ln struct {
		s string
		n int
	}
	var lines []ln
	for i, raw := range strings.Split(text, "\n") {
		s := strings.TrimRight(raw, " \t\r")
		t := strings.TrimSpace(s)
		if prefix != "" {
			if !strings.HasPrefix(t, prefix) {
				continue
			}
			s = strings.TrimPrefix(t, prefix)
		} else if strings.HasPrefix(t, "#") {
			continue
		}
		if idx := strings.Index(s, " -- "); idx >= 0 {
			s = s[:idx]
		}
		if strings.TrimSpace(s) == "" {
			continue
		}
		first := strings.Fields(s)[0]
		if !topKeywords[first] && len(lines) > 0 {
			lines[len(lines)-1].s += " " + strings.TrimSpace(s)
			continue
		}
		lines = append(lines, ln{strings.TrimSpace(s), i + 1})
	}
	var fs *FuncSpec
	var site *SiteSpec
	var loop *LoopSpec
	for _, l := range lines {
		word, rest, _ := strings.Cut(l.s, " ")
		rest = strings.TrimSpace(rest)
		errf := func(format string, a ...any) error {
			return fmt.Errorf("%s:%d: %s", file, l.n, fmt.Sprintf(format, a...))
		}
		if word == "macro" {
			m := regexp.MustCompile(`^(\w+)\(([^)]*)\)\s*=\s*(.+)$`).FindStringSubmatch(rest)
			if m == nil {
				return errf("bad macro")
			}
			body, err := parseSpecExpr(m[3])
			if err != nil {
				return errf("%v", err)
			}
			mc := &Macro{Name: m[1], Body: body}
			for _, p := range strings.Split(m[2], ",") {
				if p = strings.TrimSpace(p); p != "" {
					mc.Params = append(mc.Params, p)
				}
			}
			db.Macros[mc.Name] = mc
			continue
		}
		if word != "func" && word != "define" && fs == nil {
			return errf("clause outside func")
		}
		switch word {
		case "func":
			keys := strings.Split(rest, " | ")
			fs = &FuncSpec{Key: strings.TrimSpace(keys[0]), File: file, Line: l.n, Assumed: assumed}
			site, loop = nil, nil
			for _, k := range keys {
				k = strings.TrimSpace(k)
				fs.Keys = append(fs.Keys, k)
				if strings.Contains(k, "*.") || strings.HasSuffix(k, "*") && !strings.HasPrefix(k, "(*") {
					db.Pattern = append(db.Pattern, fs)
				}
				if old, ok := db.Funcs[k]; ok && !strings.Contains(k, "*.") {
					if old.Assumed && !assumed {
						db.Verify[k] = fs
						continue
					}
					return errf("duplicate contract for %s (first at %s:%d)", k, old.File, old.Line)
				}
				db.Funcs[k] = fs
			}
		case "define":
			// define name(Sort,Sort) Sort    (uninterpreted)
			m := regexp.MustCompile(`^(\w+)\(([^)]*)\)\s+(\w+)$`).FindStringSubmatch(rest)
			if m == nil {
				return errf("bad define")
			}
			d := &Define{Name: m[1], Res: m[3]}
			for _, s := range strings.Split(m[2], ",") {
				if s = strings.TrimSpace(s); s != "" {
					d.Sorts = append(d.Sorts, s)
				}
			}
			db.Defines[d.Name] = d
		case "props":
			fs.Props = strings.Fields(strings.ReplaceAll(rest, ",", " "))
		case "sweep":
			fs.Sweep = true
		case "frame":
			fs.Frame = rest
		case "globals":
			fs.Globals = append(fs.Globals, strings.Fields(rest)...)
		case "returns":
			fs.Returns = rest
		case "trusted":
			fs.Trusted = rest
		case "pure", "nofx", "fresh", "inline":
			fs.Kind = word
		case "kind":
			fs.Kind = rest
		case "mf":
			fs.Kind = "mf"
			name, args, _ := strings.Cut(rest, "(")
			fs.MF = strings.TrimSpace(name)
			if args != "" {
				for _, a := range strings.Split(strings.TrimSuffix(strings.TrimSpace(args), ")"), ",") {
					e, err := parseSpecExpr(a)
					if err != nil {
						return errf("%v", err)
					}
					fs.MFArgs = append(fs.MFArgs, e)
				}
			}
		case "setmf":
			name, ex, ok := strings.Cut(rest, "=")
			if !ok {
				return errf("setmf needs name = expr")
			}
			e, err := parseSpecExpr(ex)
			if err != nil {
				return errf("%v", err)
			}
			if fs.Kind == "" {
				fs.Kind = "setmf"
			}
			fs.SetMF = append(fs.SetMF, GhostUpdate{Name: strings.TrimSpace(name), E: e, Src: ex})
		case "havocobj":
			if fs.Kind == "" {
				fs.Kind = "nofx"
			}
			for _, f := range strings.Fields(rest) {
				var n int
				fmt.Sscanf(f, "%d", &n)
				fs.Havoc = append(fs.Havoc, n)
			}
		case "havocelems":
			if fs.Kind == "" {
				fs.Kind = "nofx"
			}
			for _, f := range strings.Fields(rest) {
				var n int
				fmt.Sscanf(f, "%d", &n)
				fs.HavocElems = append(fs.HavocElems, n)
			}
		case "havocmf":
			if fs.Kind == "" {
				fs.Kind = "nofx"
			}
			fs.HavocMF = append(fs.HavocMF, strings.Fields(rest)...)
		case "effect":
			fs.Effects = append(fs.Effects, strings.Fields(rest)...)
		case "requires":
			c, err := parseClause(rest, fs, file, l.n)
			if err != nil {
				return err
			}
			fs.Requires = append(fs.Requires, c)
		case "ensures":
			c, err := parseClause(rest, fs, file, l.n)
			if err != nil {
				return err
			}
			fs.Ensures = append(fs.Ensures, c)
		case "ghost":
			// ghost name sort = expr
			m := regexp.MustCompile(`^(\w+)\s+(\w+)\s*=\s*(.+)$`).FindStringSubmatch(rest)
			if m == nil {
				return errf("bad ghost declaration")
			}
			e, err := parseSpecExpr(m[3])
			if err != nil {
				return errf("%v", err)
			}
			fs.Ghosts = append(fs.Ghosts, GhostDecl{Name: m[1], Sort: sortName(m[2]), Init: e})
		case "let":
			// let $x = result <pattern> | arg N <pattern> | recv <pattern>
			m := regexp.MustCompile(`^(\$\w+)\s*=\s*(result|arg|recv)\s+(?:(\d+)\s+)?(.+)$`).FindStringSubmatch(rest)
			if m == nil {
				return errf("bad let")
			}
			ld := LetDecl{Var: m[1], Kind: m[2], Pattern: strings.TrimSpace(m[4])}
			fmt.Sscanf(m[3], "%d", &ld.N)
			fs.Lets = append(fs.Lets, ld)
		case "site", "optional":
			must := true
			if word == "optional" {
				must = false
				rest = strings.TrimSpace(strings.TrimPrefix(rest, "site"))
			}
			site = &SiteSpec{Line: l.n, Must: must}
			loop = nil
			if i := strings.LastIndex(rest, " as "); i >= 0 {
				site.Label = strings.TrimSpace(rest[i+4:])
				rest = rest[:i]
			}
			// pattern(args)
			op := strings.LastIndex(rest, "(")
			if op < 0 || !strings.HasSuffix(rest, ")") || strings.HasSuffix(rest[:op], ")") && false {
				site.Pattern = strings.TrimSpace(rest)
			} else {
				// the callee pattern itself may contain parentheses: (T).M(args)
				site.Pattern = strings.TrimSpace(rest[:op])
				for _, a := range strings.Split(rest[op+1:len(rest)-1], ",") {
					if a = strings.TrimSpace(a); a != "" {
						site.Args = append(site.Args, a)
					}
				}
				if site.Pattern == "" || strings.HasSuffix(site.Pattern, ".") {
					site.Pattern = strings.TrimSpace(rest)
					site.Args = nil
				}
			}
			if site.Label == "" {
				site.Label = site.Pattern
			}
			fs.Sites = append(fs.Sites, site)
		case "where":
			if site == nil {
				return errf("where outside site")
			}
			e, err := parseSpecExpr(rest)
			if err != nil {
				return errf("%v", err)
			}
			site.Where = e
		case "assert":
			if site == nil {
				return errf("assert outside site")
			}
			c, err := parseClause(rest, fs, file, l.n)
			if err != nil {
				return err
			}
			site.Asserts = append(site.Asserts, c)
		case "witness":
			if site == nil && loop == nil {
				return errf("witness outside site or loop")
			}
			m := regexp.MustCompile(`^(\w+)(?:\[(\w+)<(\d+)\])?\s*=\s*(.+)$`).FindStringSubmatch(rest)
			if m == nil {
				return errf("bad witness")
			}
			e, err := parseSpecExpr(m[4])
			if err != nil {
				return errf("%v", err)
			}
			w := WitnessSpec{Name: m[1], Var: m[2], E: e}
			fmt.Sscanf(m[3], "%d", &w.Bound)
			if site != nil {
				site.Witness = append(site.Witness, w)
			} else {
				loop.Witness = append(loop.Witness, w)
			}
		case "update", "bind":
			name, ex, ok := strings.Cut(rest, "=")
			if !ok || site == nil {
				return errf("bad %s", word)
			}
			e, err := parseSpecExpr(ex)
			if err != nil {
				return errf("%v", err)
			}
			u := GhostUpdate{Name: strings.TrimSpace(name), E: e, Src: ex}
			if word == "update" {
				site.Updates = append(site.Updates, u)
			} else {
				site.Binds = append(site.Binds, u)
			}
		case "loop":
			loop = &LoopSpec{Selector: rest, Line: l.n}
			site = nil
			fs.Loops = append(fs.Loops, loop)
		case "invariant":
			if loop == nil {
				return errf("invariant outside loop")
			}
			c, err := parseClause(rest, fs, file, l.n)
			if err != nil {
				return err
			}
			loop.Invariants = append(loop.Invariants, c)
		default:
			return errf("unknown keyword %q", word)
		}
	}
	return nil
}

func sortName(s string) string {
	switch strings.ToLower(s) {
	case "bool":
		return SBool
	case "int":
		return SInt
	case "str", "string":
		return SStr
	}
	return s
}

func newSpecDB() *SpecDB {
	return &SpecDB{Funcs: map[string]*FuncSpec{}, Defines: map[string]*Define{}, Macros: map[string]*Macro{}, Verify: map[string]*FuncSpec{}}
}

// loadDepSpecs reads /verif/contracts/deps/*.spec.
func loadDepSpecs(db *SpecDB, dir string) error {
	files, _ := filepath.Glob(filepath.Join(dir, "*.spec"))
	for _, f := range files {
		b, err := os.ReadFile(f)
		if err != nil {
			return err
		}
		if err := parseSpecText(db, string(b), f, "", true); err != nil {
			return err
		}
	}
	return nil
}

// loadRepoContracts reads zz_contracts_verif.go next to the code of each root package.
func loadRepoContracts(db *SpecDB, dirs []string) ([]string, error) {
	var files []string
	for _, d := range dirs {
		f := filepath.Join(d, "zz_contracts_verif.go")
		b, err := os.ReadFile(f)
		if err != nil {
			continue
		}
		files = append(files, f)
		if err := parseSpecText(db, string(b), f, "//@", false); err != nil {
			return files, err
		}
	}
	return files, nil
}

// lookup finds the contract for a callee key (exact, then wildcard patterns "*.Method").
func (db *SpecDB) lookup(keys ...string) *FuncSpec {
	for _, k := range keys {
		if fs, ok := db.Funcs[k]; ok {
			return fs
		}
	}
	for _, k := range keys {
		// package wildcard: "strconv.*"
		if !strings.HasPrefix(k, "(") && !strings.Contains(k, "/") {
			if i := strings.Index(k, "."); i > 0 {
				if fs, ok := db.Funcs[k[:i]+".*"]; ok {
					return fs
				}
			}
		}
	}
	for _, k := range keys {
		// functional options: "functype:*Option"
		if strings.HasPrefix(k, "functype:") && strings.HasSuffix(k, "Option") {
			if fs, ok := db.Funcs["functype:*Option"]; ok {
				return fs
			}
		}
	}
	for _, k := range keys {
		// all methods of a type: "(schema.GroupVersionKind).*"
		if i := strings.LastIndex(k, ")."); i >= 0 && strings.HasPrefix(k, "(") {
			if fs, ok := db.Funcs[k[:i+2]+"*"]; ok {
				return fs
			}
		}
	}
	for _, k := range keys {
		// method name wildcard: "*.GetName"
		if i := strings.LastIndex(k, ")."); i >= 0 {
			if fs, ok := db.Funcs["*."+k[i+2:]]; ok {
				return fs
			}
		}
	}
	return nil
}
