package main

import (
	"fmt"
	"go/ast"
	"go/constant"
	"go/token"
	"go/types"
	"strings"

	"golang.org/x/tools/go/packages"
	"golang.org/x/tools/go/ssa"
)

// Env evaluates specification expressions in a symbolic state.
type Env struct {
	x            *Exec
	fr           *Frame // frame whose names are visible (root frame of the function under proof)
	cur          *Frame // frame executing (may be an inlined callee)
	st           *State
	old          *State // function entry
	pre          *State // state before the call (site updates / ensures of callees)
	vars         map[string]Value
	loop         *loopInfo
	pos          token.Pos
	callee       bool // evaluating a callee's contract: identifiers are the callee's parameter names only
	siteWhere    Expr
	siteOptional bool
	inQuant      int
	nameSens     []string
	// side collects, for the innermost enclosing binder, the postconditions of pure dependency
	// contracts applied to terms that mention bound variables (no standalone fact can be added
	// for those). The binder conjoins them to (exists) or assumes them in (forall) its body.
	side      *[]Term
	sideDepth int
	// How a side condition A is attached to a binder's body P depends on whether P has to be
	// established (A ==> P: the side condition may be used) or is available for use (A && P:
	// the side condition comes with it). assumeMode: the clause is being assumed, not proved;
	// negPol: syntactic polarity inside the clause; ambig: under <==> or a Boolean equality.
	assumeMode bool
	negPol     bool
	ambig      int
}

func (x *Exec) newEnv(fr *Frame, st *State) *Env {
	return &Env{x: x, fr: fr, cur: fr, st: st, old: x.entry, vars: map[string]Value{}}
}

type pkgRef struct{ pkg *types.Package }

func boolV(t Term) Value { return Scalar{T: t, Sort: SBool, Typ: types.Typ[types.Bool]} }
func intV(t Term) Value  { return Scalar{T: t, Sort: SInt, Typ: types.Typ[types.Int]} }

func (e *Env) evalBool(ex Expr) (Term, error) {
	v, err := e.eval(ex)
	if err != nil {
		return "", err
	}
	s, ok := v.(Scalar)
	if !ok || s.Sort != SBool {
		return "", fmt.Errorf("%s is not boolean", exprString(ex))
	}
	return s.T, nil
}

func (e *Env) def(hint, sort string, t Term) Term {
	if e.inQuant > 0 {
		return t
	}
	return e.x.smt.def(hint, sort, t)
}

func (e *Env) eval(ex Expr) (Value, error) {
	m := e.x.smt
	switch ex := ex.(type) {
	case EInt:
		return intV(IntLit(ex.V)), nil
	case EBool:
		if ex.V {
			return boolV("true"), nil
		}
		return boolV("false"), nil
	case EStr:
		return Scalar{T: m.strlit(ex.V), Sort: SStr, Typ: types.Typ[types.String]}, nil
	case ENil:
		return OpaqueV{T: "0", Typ: types.Typ[types.UntypedNil]}, nil
	case EIdent:
		return e.ident(ex.Name)
	case EUnary:
		if ex.Op == "&" {
			// address of a field: &x.f
			if ix, ok := ex.X.(EIndex); ok {
				// address of a slice element: &s[i]
				sv, err := e.eval(ix.X)
				if err != nil {
					return nil, err
				}
				iv, err := e.eval(ix.I)
				if err != nil {
					return nil, err
				}
				s, ok := sv.(SliceV)
				if !ok {
					return nil, fmt.Errorf("& on an element of a non-slice")
				}
				elem := s.Typ.Underlying().(*types.Slice).Elem()
				return e.x.elemAddr(elem, s.Arr, e.x.sliceIdx(s.Off, flatten(iv)[0])), nil
			}
			if id, ok := ex.X.(EIdent); ok {
				// address of a local variable that lives in the heap
				if a := e.fr.lookupLocal(id.Name, e.pos); a != nil && a.Heap {
					if p, ok := e.fr.reg[a].(PtrV); ok {
						return p, nil
					}
				}
				return nil, fmt.Errorf("&%s: not an addressable local", id.Name)
			}
			sel, ok := ex.X.(ESel)
			if !ok {
				return nil, fmt.Errorf("& needs a field selection or an element")
			}
			base, err := e.eval(sel.X)
			if err != nil {
				return nil, err
			}
			p, ok := base.(PtrV)
			if !ok {
				return nil, fmt.Errorf("& on a field of a non-pointer")
			}
			s := structOf(p.Elem)
			if s == nil {
				return nil, fmt.Errorf("& on a field of a non-struct")
			}
			for i := 0; i < s.NumFields(); i++ {
				if s.Field(i).Name() == sel.Name {
					return e.x.fieldAddr(p, i), nil
				}
			}
			return nil, fmt.Errorf("no field %s", sel.Name)
		}
		if ex.Op == "!" {
			e.negPol = !e.negPol
		}
		v, err := e.eval(ex.X)
		if ex.Op == "!" {
			e.negPol = !e.negPol
		}
		if err != nil {
			return nil, err
		}
		switch ex.Op {
		case "!":
			s, ok := v.(Scalar)
			if !ok || s.Sort != SBool {
				return nil, fmt.Errorf("! on non-bool %s", exprString(ex.X))
			}
			return boolV(Not(s.T)), nil
		case "-":
			s, ok := v.(Scalar)
			if !ok {
				return nil, fmt.Errorf("- on non-number")
			}
			return Scalar{T: "(- " + s.T + ")", Sort: s.Sort, Typ: s.Typ}, nil
		case "*":
			p, ok := v.(PtrV)
			if !ok {
				return nil, fmt.Errorf("* on non-pointer %s", exprString(ex.X))
			}
			return e.x.load(e.st, p), nil
		}
	case EBinary:
		return e.binary(ex)
	case ESel:
		return e.sel(ex)
	case EIndex:
		return e.index(ex)
	case ECall:
		return e.call(ex)
	case EQuant:
		return e.quant(ex)
	}
	return nil, fmt.Errorf("cannot evaluate %s", exprString(ex))
}

func (e *Env) quant(q EQuant) (Value, error) {
	saved := map[string]Value{}
	var decl []string
	for i, v := range q.Vars {
		if old, ok := e.vars[v]; ok {
			saved[v] = old
		}
		e.x.smt.n++
		name := fmt.Sprintf("%s!q%d", v, e.x.smt.n)
		sort := sortName(q.Sorts[i])
		if sort == "Key" {
			// the (packed) key sort of the map ranged over by the loop this clause belongs to
			if e.loop == nil || e.loop.iter == nil {
				return nil, fmt.Errorf("sort Key is only available in clauses of a map range loop")
			}
			mt, ok := e.loop.iter.X.Type().Underlying().(*types.Map)
			if !ok {
				return nil, fmt.Errorf("sort Key: ranged value is not a map")
			}
			sort = e.x.keySort(mt.Key())
		}
		decl = append(decl, "("+name+" "+sort+")")
		switch sort {
		case SBool:
			e.vars[v] = boolV(name)
		case SStr:
			e.vars[v] = Scalar{T: name, Sort: SStr, Typ: types.Typ[types.String]}
		case SInt:
			e.vars[v] = intV(name)
		default:
			e.vars[v] = Scalar{T: name, Sort: sort, Typ: types.Typ[types.Int]}
		}
	}
	e.inQuant++
	// evaluating the body must not add defs/axioms that mention bound variables: defs are
	// suppressed via e.def; the executor helpers used below (load/mapValAt/...) only build terms.
	saveSt := e.st
	e.st = e.st.clone()
	saveSide := e.side
	var side []Term
	e.side = &side
	body, err := e.evalBool(q.Body)
	var pats []string
	if err == nil {
		for _, pat := range q.Pats {
			var ts []string
			for _, pe := range pat {
				pv, perr := e.eval(pe)
				if perr != nil {
					err = fmt.Errorf("trigger %s: %v", exprString(pe), perr)
					break
				}
				if r, ok := objRef(pv); ok {
					ts = append(ts, r)
				} else {
					ts = append(ts, flatten(pv)[0])
				}
			}
			pats = append(pats, ":pattern ("+strings.Join(ts, " ")+")")
		}
	}
	e.side = saveSide
	e.st = saveSt
	e.inQuant--
	if err == nil && len(side) > 0 {
		// Side conditions A (postconditions of pure dependency contracts applied to bound
		// variables) can be attached to the body P as a guard (A ==> P) or as a conjunct
		// (A && P). Both are sound: A is a trusted postcondition. What the clause has to
		// establish gets the form that is easier to prove, what it may use gets the stronger
		// one. For a universal that is handed to the solver as a fact the conjunct form is the
		// complete one, but stating A for all values was seen to stall z3 on otherwise easy
		// queries; such spots are marked (SIDE! A P) and rendered both ways (see smtTextOpt):
		// "and" in the main query, "=>" in an auxiliary one of which only "unsat" is used.
		sideT := And(side...)
		universal := q.Forall != e.negPol // as seen from the clause as a whole
		usable := e.assumeMode            // the clause is a fact (true) or a goal (false)
		switch {
		case e.ambig > 0:
			if q.Forall {
				body = Implies(sideT, body)
			} else {
				body = And(sideT, body)
			}
		case usable && universal:
			// a universal fact: forall x. SIDE(A, P)   /  not exists x. SIDE'(A, P)
			if q.Forall {
				body = "(SIDE! " + sideT + " " + body + ")"
			} else {
				body = And(sideT, body) // not exists x. (A && P)  ==  forall x. A ==> !P  (the guarded form)
			}
		case usable && !universal:
			// an existential fact: the witness comes with its side conditions
			if q.Forall {
				body = Implies(sideT, body) // not forall x. (A ==> P)  ==  exists x. A && !P
			} else {
				body = And(sideT, body)
			}
		case !usable && universal:
			// a universal to establish: the side conditions may be used
			if q.Forall {
				body = Implies(sideT, body)
			} else {
				body = And(sideT, body) // not exists x. (A && P)  ==  forall x. A ==> !P
			}
		default:
			// an existential to establish (or a universal the goal negates): nothing about A
			// has to be proved for the witness
			if q.Forall {
				body = And(sideT, body) // not forall x. (A && P)  ==  exists x. !A || !P
			} else {
				body = Implies(sideT, body)
			}
		}
	}
	for _, v := range q.Vars {
		delete(e.vars, v)
		if old, ok := saved[v]; ok {
			e.vars[v] = old
		}
	}
	if err != nil {
		return nil, err
	}
	kw := "exists"
	if q.Forall {
		kw = "forall"
	}
	if len(pats) > 0 {
		body = "(! " + body + " " + strings.Join(pats, " ") + ")"
	}
	return boolV("(" + kw + " (" + strings.Join(decl, " ") + ") " + body + ")"), nil
}

// ident resolves a name: bound variables, metavariables, ghosts, special names, Go locals,
// parameters, package-level objects, package names.
func (e *Env) ident(name string) (Value, error) {
	if v, ok := e.vars[name]; ok {
		return v, nil
	}
	if strings.HasPrefix(name, "$") {
		if name == "$$len" && e.loop != nil && e.loop.lenVal != nil {
			return e.x.val(e.fr, e.st, e.loop.lenVal), nil
		}
		if v, ok := e.st.binds[name]; ok {
			return v, nil
		}
		return nil, fmt.Errorf("metavariable %s is not bound here (no matching call dominates this point)", name)
	}
	if v, ok := e.st.ghost[name]; ok {
		if e.callee {
			// ghosts belong to one activation: a callee's contract clause that names a ghost says
			// nothing about the caller's ghost of the same name (the clause is not usable here)
			return nil, fmt.Errorf("ghost %s of the callee's contract is not visible at a call site", name)
		}
		return v, nil
	}
	switch name {
	case "done", "index":
		if e.loop == nil || e.loop.rangeIdx == nil {
			return nil, fmt.Errorf("%s used outside a range-over-slice loop clause", name)
		}
		cell := e.fr.cells[e.loop.rangeIdx]
		if cell == nil {
			return nil, fmt.Errorf("range index not allocated")
		}
		cur := flatten(e.st.cells[cell])[0]
		if name == "done" {
			return intV("(+ " + cur + " 1)"), nil
		}
		return intV(cur), nil
	case "ranged":
		// the slice a range-over-slice loop iterates over (its range expression is evaluated once)
		if e.loop == nil || e.loop.rangeX == nil {
			return nil, fmt.Errorf("ranged used outside a range-over-slice loop clause")
		}
		return e.x.val(e.fr, e.st, e.loop.rangeX), nil
	case "visited":
		if e.loop != nil && e.loop.iter != nil {
			if g, ok := e.fr.iters[e.loop.iter]; ok {
				if v, ok := e.st.ghost[g]; ok {
					return v, nil
				}
			}
		}
		return nil, fmt.Errorf("visited used outside a map range loop clause")
	case "nvisited":
		if e.loop != nil && e.loop.iter != nil {
			if g, ok := e.fr.iters[e.loop.iter]; ok {
				if v, ok := e.st.ghost[g+"#n"]; ok {
					return v, nil
				}
			}
		}
		return nil, fmt.Errorf("nvisited used outside a map range loop clause")
	case "key":
		if e.loop != nil && e.loop.iter != nil {
			if g, ok := e.fr.iters[e.loop.iter]; ok {
				if v, ok := e.st.binds["$$key!"+g]; ok {
					return v, nil
				}
			}
		}
		return nil, fmt.Errorf("key used outside a map range loop clause")
	case "emptyintset":
		return ArrayV{T: "((as const (Array Int Bool)) false)", Sort: arrSort(SInt, SBool)}, nil
	case "emptystrset":
		return ArrayV{T: "((as const (Array Str Bool)) false)", Sort: arrSort(SStr, SBool)}, nil
	case "MaxInt64":
		return intV("9223372036854775807"), nil
	}
	// Go local / parameter by name (not visible from a callee's contract)
	fr := e.fr
	if e.callee {
		if fr.pkg != nil {
			if p := e.importedPkg(name); p != nil {
				return pkgRef{p}, nil
			}
		}
		return nil, fmt.Errorf("unknown name %s in callee contract", name)
	}
	if a := fr.lookupLocal(name, e.pos); a != nil {
		e.nameSens = append(e.nameSens, name)
		if !a.Heap {
			cell := fr.cells[a]
			if cell != nil {
				if v, ok := e.st.cells[cell]; ok {
					return v, nil
				}
			}
			// not (yet) live on this path: its value is arbitrary
			return e.x.smt.freshValue(a.Type().(*types.Pointer).Elem(), "dead."+name), nil
		}
		if p, ok := fr.reg[a].(PtrV); ok {
			return e.x.load(e.st, p), nil
		}
		return e.x.smt.freshValue(a.Type().(*types.Pointer).Elem(), "dead."+name), nil
	}
	if v, ok := fr.params[name]; ok {
		return v, nil
	}
	if v, ok := fr.freevars[name]; ok {
		// a captured variable: the closure holds its address
		if p, ok := v.(PtrV); ok {
			return e.x.load(e.st, p), nil
		}
		return v, nil
	}
	// package-level object or package name
	if fr.pkg != nil {
		if obj := fr.pkg.Scope().Lookup(name); obj != nil {
			return e.pkgObject(obj)
		}
		if p := e.importedPkg(name); p != nil {
			return pkgRef{p}, nil
		}
	}
	return nil, fmt.Errorf("unknown name %s", name)
}

func (e *Env) importedPkg(name string) *types.Package {
	fr := e.fr
	if fr.pkg == nil {
		return nil
	}
	if fr.pkg.Name() == name {
		return fr.pkg
	}
	// prefer the file's import names
	if fr.info != nil {
		for _, p := range []*packages.Package{e.x.L.All[fr.pkg]} {
			if p == nil {
				continue
			}
			// the file that contains the clause's anchor position first: import names are per file
			files := append([]*ast.File(nil), p.Syntax...)
			for i, f := range files {
				if e.pos.IsValid() && f.Pos() <= e.pos && e.pos < f.End() {
					files[0], files[i] = files[i], files[0]
					break
				}
			}
			for _, f := range files {
				for _, imp := range f.Imports {
					path := strings.Trim(imp.Path.Value, `"`)
					ip := p.Imports[path]
					if ip == nil {
						continue
					}
					n := ip.Types.Name()
					if imp.Name != nil {
						n = imp.Name.Name
					}
					if n == name {
						return ip.Types
					}
				}
			}
		}
	}
	return nil
}

func (e *Env) pkgObject(obj types.Object) (Value, error) {
	m := e.x.smt
	switch o := obj.(type) {
	case *types.Const:
		return constToValue(m, o.Val(), o.Type()), nil
	case *types.Func:
		// a package-level function used as a value
		if fn := e.x.L.Prog.FuncValue(o); fn != nil {
			return e.x.val(e.fr, e.st, fn), nil
		}
		return nil, fmt.Errorf("function %s has no SSA value", o.Name())
	case *types.Var:
		// global variable: load through its SSA global
		if sp := e.x.L.Prog.Package(o.Pkg()); sp != nil {
			if g, ok := sp.Members[o.Name()].(*ssa.Global); ok {
				p := e.x.val(e.fr, e.st, g).(PtrV)
				return e.x.load(e.st, p), nil
			}
		}
		return nil, fmt.Errorf("global %s has no SSA member (package not loaded as root)", o.Name())
	}
	return nil, fmt.Errorf("%s is not a value", obj.Name())
}

func constToValue(m *SMT, v constant.Value, t types.Type) Value {
	switch v.Kind() {
	case constant.Bool:
		if constant.BoolVal(v) {
			return Scalar{T: "true", Sort: SBool, Typ: t}
		}
		return Scalar{T: "false", Sort: SBool, Typ: t}
	case constant.String:
		return Scalar{T: m.strlit(constant.StringVal(v)), Sort: SStr, Typ: t}
	case constant.Int:
		if n, ok := constant.Int64Val(v); ok {
			return Scalar{T: IntLit(n), Sort: SInt, Typ: t}
		}
	}
	return Scalar{T: realLit(v), Sort: SReal, Typ: t}
}

// lookupLocal finds the Alloc of the Go variable `name` visible at pos.
func (fr *Frame) lookupLocal(name string, pos token.Pos) *ssa.Alloc {
	var obj types.Object
	if fr.pkg != nil && pos.IsValid() {
		if sc := fr.pkg.Scope().Innermost(pos); sc != nil {
			_, obj = sc.LookupParent(name, pos)
		}
	}
	var byName, byPos []*ssa.Alloc
	for _, l := range fr.fn.Locals {
		if l.Comment == name {
			if obj != nil && l.Pos() == obj.Pos() {
				byPos = append(byPos, l)
			}
			byName = append(byName, l)
		}
	}
	for _, b := range fr.fn.Blocks {
		for _, ins := range b.Instrs {
			if a, ok := ins.(*ssa.Alloc); ok && a.Heap && a.Comment == name {
				if obj != nil && a.Pos() == obj.Pos() {
					byPos = append(byPos, a)
				}
				byName = append(byName, a)
			}
		}
	}
	if len(byPos) == 1 {
		return byPos[0]
	}
	if len(byPos) > 1 {
		// the variable of a type switch (switch v := x.(type)) is one object per clause, all
		// declared at the position of the guard: take the one used inside the clause in scope
		if sc := obj.Parent(); sc != nil {
			for _, a := range byPos {
				for _, u := range *a.Referrers() {
					if p := u.Pos(); p.IsValid() && sc.Pos() <= p && p < sc.End() {
						return a
					}
				}
			}
		}
		return byPos[0]
	}
	if obj != nil {
		if _, isVar := obj.(*types.Var); isVar && obj.Parent() != nil && obj.Parent() != fr.pkg.Scope() && obj.Parent() != types.Universe {
			// a local exists by that name but no alloc matched its position
			if len(byName) == 1 {
				return byName[0]
			}
		}
	}
	if obj == nil && len(byName) == 1 {
		return byName[0]
	}
	if len(byName) > 0 && obj == nil {
		return byName[0]
	}
	return nil
}

func (e *Env) sel(ex ESel) (Value, error) {
	xv, err := e.eval(ex.X)
	if err != nil {
		// maybe X is a package name that is not otherwise resolvable
		return nil, err
	}
	if pr, ok := xv.(pkgRef); ok {
		obj := pr.pkg.Scope().Lookup(ex.Name)
		if obj == nil {
			return nil, fmt.Errorf("%s.%s not found", pr.pkg.Name(), ex.Name)
		}
		switch o := obj.(type) {
		case *types.Const:
			return constToValue(e.x.smt, o.Val(), o.Type()), nil
		case *types.TypeName:
			return typeRef{o.Type()}, nil
		case *types.Var, *types.Func:
			return e.pkgObject(o)
		}
		return nil, fmt.Errorf("%s.%s is not a constant", pr.pkg.Name(), ex.Name)
	}
	return e.fieldOf(xv, ex.Name)
}

type typeRef struct{ t types.Type }

func (e *Env) fieldOf(v Value, name string) (Value, error) {
	switch vv := v.(type) {
	case StructV:
		s := structOf(vv.Typ)
		for i := 0; i < s.NumFields(); i++ {
			if s.Field(i).Name() == name {
				return vv.F[i], nil
			}
		}
		for i := 0; i < s.NumFields(); i++ {
			if s.Field(i).Embedded() {
				if r, err := e.fieldOf(vv.F[i], name); err == nil {
					return r, nil
				}
			}
		}
		return nil, fmt.Errorf("no field %s in %s", name, typeName(vv.Typ))
	case PtrV:
		s := structOf(vv.Elem)
		if s == nil {
			return nil, fmt.Errorf("field %s of pointer to non-struct", name)
		}
		for i := 0; i < s.NumFields(); i++ {
			if s.Field(i).Name() == name {
				return e.x.load(e.st, e.x.fieldAddr(vv, i)), nil
			}
		}
		for i := 0; i < s.NumFields(); i++ {
			if s.Field(i).Embedded() {
				fa := e.x.fieldAddr(vv, i)
				var inner Value = fa
				if _, isPtr := s.Field(i).Type().Underlying().(*types.Pointer); isPtr {
					inner = e.x.load(e.st, fa)
				}
				if r, err := e.fieldOf(inner, name); err == nil {
					return r, nil
				}
			}
		}
		return nil, fmt.Errorf("no field %s in %s", name, typeName(vv.Elem))
	case SliceV:
		switch name {
		case "len":
			return intV(vv.Len), nil
		}
	case IfaceV:
		switch name {
		case "tag":
			return intV(vv.Tag), nil
		case "data":
			return intV(vv.Data), nil
		}
	}
	return nil, fmt.Errorf("cannot select .%s on %T", name, v)
}

func (e *Env) index(ex EIndex) (Value, error) {
	xv, err := e.eval(ex.X)
	if err != nil {
		return nil, err
	}
	iv, err := e.eval(ex.I)
	if err != nil {
		return nil, err
	}
	switch b := xv.(type) {
	case TupleV:
		if ci, ok := ex.I.(EInt); ok && int(ci.V) < len(b.E) {
			return b.E[ci.V], nil
		}
		return nil, fmt.Errorf("a tuple is indexed by a constant within its length")
	case SliceV:
		return e.x.elemLoad(e.st, b, flatten(iv)[0]), nil
	case MapV:
		mt := b.Typ.Underlying().(*types.Map)
		k := e.x.keyTerm(mt.Key(), e.coerceKey(iv, mt.Key()))
		if rk, ok := rawKey(iv, mt.Key()); ok {
			k = rk
		}
		has := And(Not(Eq(b.Ref, NilRef)), Select(e.x.mapDom(e.st, b), k))
		save := e.x.smt
		_ = save
		if e.inQuant > 0 {
			// no definitions may be introduced under a binder: build the ite leaf-wise inline
			va, vz := flatten(e.x.mapValAt(e.st, b, k)), flatten(e.x.smt.zeroValue(mt.Elem()))
			out := make([]Term, len(va))
			for i := range va {
				out[i] = Ite(has, va[i], vz[i])
			}
			v, _ := unflatten(mt.Elem(), out)
			return v, nil
		}
		return e.x.smt.iteValue(has, e.x.mapValAt(e.st, b, k), e.x.smt.zeroValue(mt.Elem())), nil
	case ArrayV:
		k := flatten(iv)[0]
		if b.Key != nil {
			k = e.x.keyTerm(b.Key, e.coerceKey(iv, b.Key))
		}
		return boolV(Select(b.T, k)), nil
	}
	return nil, fmt.Errorf("cannot index %T", xv)
}

func (e *Env) coerceKey(v Value, kt types.Type) Value {
	return e.x.retype(v, kt)
}

// rawKey: a quantified Int used as the (packed) key of a map with a composite key type.
func rawKey(v Value, kt types.Type) (Term, bool) {
	s, ok := v.(Scalar)
	if !ok || !strings.HasPrefix(strings.Trim(s.Sort, "|"), "Key.") {
		return "", false
	}
	switch kt.Underlying().(type) {
	case *types.Basic, *types.Pointer, *types.Chan:
		return "", false
	}
	return s.T, true
}

func (e *Env) binary(ex EBinary) (Value, error) {
	switch ex.Op {
	case "&&", "||", "==>", "<==>":
		switch ex.Op {
		case "==>":
			e.negPol = !e.negPol
		case "<==>":
			e.ambig++
		}
		a, err := e.evalBool(ex.X)
		if ex.Op == "==>" {
			e.negPol = !e.negPol
		}
		if err != nil {
			if ex.Op == "<==>" {
				e.ambig--
			}
			return nil, err
		}
		b, err := e.evalBool(ex.Y)
		if ex.Op == "<==>" {
			e.ambig--
		}
		if err != nil {
			return nil, err
		}
		switch ex.Op {
		case "&&":
			return boolV(And(a, b)), nil
		case "||":
			return boolV(Or(a, b)), nil
		case "==>":
			return boolV(Implies(a, b)), nil
		default:
			return boolV(Eq(a, b)), nil
		}
	}
	a, err := e.eval(ex.X)
	if err != nil {
		return nil, err
	}
	b, err := e.eval(ex.Y)
	if err != nil {
		return nil, err
	}
	switch ex.Op {
	case "in":
		switch c := b.(type) {
		case MapV:
			mt := c.Typ.Underlying().(*types.Map)
			k := e.x.keyTerm(mt.Key(), e.coerceKey(a, mt.Key()))
			if rk, ok := rawKey(a, mt.Key()); ok {
				k = rk
			}
			return boolV(And(Not(Eq(c.Ref, NilRef)), Select(e.x.mapDom(e.st, c), k))), nil
		case ArrayV:
			k := flatten(a)[0]
			if c.Key != nil {
				k = e.x.keyTerm(c.Key, e.coerceKey(a, c.Key))
				if rk, ok := rawKey(a, c.Key); ok {
					k = rk
				}
			}
			return boolV(Select(c.T, k)), nil
		}
		return nil, fmt.Errorf("'in' needs a map or set on the right")
	case "==", "!=":
		var t Term
		_, an := a.(OpaqueV)
		_, bn := b.(OpaqueV)
		switch {
		case isNilLit(ex.Y):
			nt, ok := e.x.nilTerm(a)
			if !ok {
				return nil, fmt.Errorf("nil comparison on %T", a)
			}
			t = nt
		case isNilLit(ex.X):
			nt, ok := e.x.nilTerm(b)
			if !ok {
				return nil, fmt.Errorf("nil comparison on %T", b)
			}
			t = nt
		default:
			_, _ = an, bn
			ai, ok1 := a.(IfaceV)
			bi, ok2 := b.(IfaceV)
			am, okm1 := a.(MapV)
			bm, okm2 := b.(MapV)
			if okm1 && okm2 && !types.Identical(am.Typ.Underlying(), bm.Typ.Underlying()) {
				t = "false" // maps of different types are different objects
			} else if ok1 && ok2 {
				t = And(Eq(ai.Tag, bi.Tag), Eq(ai.Data, bi.Data))
			} else if ok1 != ok2 {
				// interface vs. concrete: compare the object reference
				ra, oka := objRef(a)
				rb, okb := objRef(b)
				if !oka || !okb {
					return nil, fmt.Errorf("cannot compare %T with %T", a, b)
				}
				t = Eq(ra, rb)
			} else {
				fa, fb := flatten(a), flatten(b)
				if len(fa) != len(fb) {
					return nil, fmt.Errorf("cannot compare %s with %s (different shapes)", exprString(ex.X), exprString(ex.Y))
				}
				t = eqValue(a, b)
			}
		}
		if ex.Op == "!=" {
			t = Not(t)
		}
		return boolV(t), nil
	}
	sa, ok1 := a.(Scalar)
	sb, ok2 := b.(Scalar)
	if !ok1 || !ok2 {
		return nil, fmt.Errorf("operator %s on non-scalars in %s", ex.Op, exprString(ex))
	}
	if sa.Sort == SInt && sb.Sort == SReal {
		sa = Scalar{T: "(to_real " + sa.T + ")", Sort: SReal}
	}
	if sb.Sort == SInt && sa.Sort == SReal {
		sb = Scalar{T: "(to_real " + sb.T + ")", Sort: SReal}
	}
	switch ex.Op {
	case "<", "<=", ">", ">=":
		return boolV("(" + ex.Op + " " + sa.T + " " + sb.T + ")"), nil
	case "+", "-", "*":
		if sa.Sort == SStr && ex.Op == "+" {
			if e.inQuant > 0 {
				return Scalar{T: App(e.x.smt.fun("str.concat", []string{SStr, SStr}, SStr), sa.T, sb.T), Sort: SStr, Typ: sa.Typ}, nil
			}
			return Scalar{T: e.x.strConcat(sa.T, sb.T), Sort: SStr, Typ: sa.Typ}, nil
		}
		return Scalar{T: "(" + ex.Op + " " + sa.T + " " + sb.T + ")", Sort: sa.Sort, Typ: sa.Typ}, nil
	case "/":
		return Scalar{T: App(e.x.goDiv(), sa.T, sb.T), Sort: SInt, Typ: sa.Typ}, nil
	case "%":
		return Scalar{T: App(e.x.goRem(), sa.T, sb.T), Sort: SInt, Typ: sa.Typ}, nil
	}
	return nil, fmt.Errorf("unknown operator %s", ex.Op)
}

func isNilLit(e Expr) bool { _, ok := e.(ENil); return ok }

func (e *Env) call(ex ECall) (Value, error) {
	m := e.x.smt
	if id, ok := ex.Fun.(EIdent); ok {
		switch id.Name {
		case "old":
			if len(ex.Args) != 1 {
				return nil, fmt.Errorf("old takes one argument")
			}
			if e.old == nil {
				return nil, fmt.Errorf("old() not available here")
			}
			save, savePos := e.st, e.pos
			e.st = e.old
			v, err := e.evalOld(ex.Args[0])
			e.st, e.pos = save, savePos
			return v, err
		case "nilof":
			// nilof(*T): the nil pointer of that type (initial value of a ghost that holds an object)
			if len(ex.Args) != 1 {
				return nil, fmt.Errorf("nilof takes a pointer type")
			}
			t, err := e.typeExpr(ex.Args[0])
			if err != nil {
				return nil, err
			}
			pt, ok := t.Underlying().(*types.Pointer)
			if !ok {
				return nil, fmt.Errorf("nilof takes a pointer type")
			}
			return PtrV{Ref: NilRef, Elem: pt.Elem()}, nil
		case "pre":
			if e.pre == nil {
				return nil, fmt.Errorf("pre() not available here")
			}
			save := e.st
			e.st = e.pre
			v, err := e.eval(ex.Args[0])
			e.st = save
			return v, err
		case "len":
			v, err := e.eval(ex.Args[0])
			if err != nil {
				return nil, err
			}
			if iv, ok := v.(IfaceV); ok && iv.Dyn != nil {
				// an interface value whose dynamic type is statically a map or slice
				switch iv.Dyn.Underlying().(type) {
				case *types.Map, *types.Slice:
					v = e.x.unbox(iv.Data, iv.Dyn)
				}
			}
			switch a := v.(type) {
			case SliceV:
				return intV(a.Len), nil
			case MapV:
				return intV(Ite(Eq(a.Ref, NilRef), "0", e.x.mapCard(e.st, a))), nil
			case Scalar:
				if a.Sort == SStr {
					return intV(App("strlen", a.T)), nil
				}
			}
			return nil, fmt.Errorf("len of %T", v)
		case "typeis":
			// typeis(x, pkg.Type) / typeis(x, *pkg.Type)
			v, err := e.eval(ex.Args[0])
			if err != nil {
				return nil, err
			}
			iv, ok := v.(IfaceV)
			if !ok {
				return nil, fmt.Errorf("typeis on non-interface")
			}
			t, err := e.typeExpr(ex.Args[1])
			if err != nil {
				return nil, err
			}
			return boolV(Eq(iv.Tag, e.x.typeID(t))), nil
		case "contains":
			// contains(slice, value): exists i. 0<=i<len && slice[i]==value
			sv, err := e.eval(ex.Args[0])
			if err != nil {
				return nil, err
			}
			val, err := e.eval(ex.Args[1])
			if err != nil {
				return nil, err
			}
			s, ok := sv.(SliceV)
			if !ok {
				return nil, fmt.Errorf("contains on non-slice")
			}
			e.x.smt.n++
			q := fmt.Sprintf("ci!%d", e.x.smt.n)
			el := e.x.elemLoad(e.st, s, q)
			return boolV(fmt.Sprintf("(exists ((%s Int)) (and (<= 0 %s) (< %s %s) %s))", q, q, q, s.Len, eqLoose(el, val))), nil
		case "as":
			// as(x, pkg.Iface): view an interface value at another interface type
			v, err := e.eval(ex.Args[0])
			if err != nil {
				return nil, err
			}
			t, err := e.typeExpr(ex.Args[1])
			if err != nil {
				return nil, err
			}
			switch vv := v.(type) {
			case IfaceV:
				if _, ok := t.Underlying().(*types.Interface); ok {
					vv.Typ = t
					return vv, nil
				}
				return e.x.unbox(vv.Data, t), nil
			case PtrV:
				if pt, ok := t.Underlying().(*types.Pointer); ok {
					vv.Elem = pt.Elem()
					return vv, nil
				}
			}
			return nil, fmt.Errorf("as: cannot view %T as %s", v, typeName(t))
		case "call":
			// call("callee key", args...): apply a pure/mf dependency contract by its key
			ks, ok := ex.Args[0].(EStr)
			if !ok {
				return nil, fmt.Errorf("call needs a string key")
			}
			spec := e.x.DB.lookup(ks.V)
			if spec == nil {
				return nil, fmt.Errorf("no contract for %s", ks.V)
			}
			var args []Value
			for _, a := range ex.Args[1:] {
				v, err := e.eval(a)
				if err != nil {
					return nil, err
				}
				args = append(args, v)
			}
			return e.specCall(spec, args, nil)
		case "ite":
			c, err := e.evalBool(ex.Args[0])
			if err != nil {
				return nil, err
			}
			a, err := e.eval(ex.Args[1])
			if err != nil {
				return nil, err
			}
			b, err := e.eval(ex.Args[2])
			if err != nil {
				return nil, err
			}
			if aa, ok := a.(ArrayV); ok {
				if bb, ok := b.(ArrayV); ok {
					return ArrayV{T: Ite(c, aa.T, bb.T), Sort: aa.Sort, Key: aa.Key}, nil
				}
			}
			fa, fb := flatten(a), flatten(b)
			if len(fa) != len(fb) {
				return nil, fmt.Errorf("ite branches have different shapes")
			}
			out := make([]Term, len(fa))
			for i := range fa {
				out[i] = Ite(c, fa[i], fb[i])
			}
			v, _ := unflatten(valueType(a), out)
			return v, nil
		case "add", "remove":
			// add(set, x) / remove(set, x) on ghost sets
			sv, err := e.eval(ex.Args[0])
			if err != nil {
				return nil, err
			}
			set, ok := sv.(ArrayV)
			if !ok {
				return nil, fmt.Errorf("%s needs a ghost set", id.Name)
			}
			xv, err := e.eval(ex.Args[1])
			if err != nil {
				return nil, err
			}
			val := "true"
			if id.Name == "remove" {
				val = "false"
			}
			return ArrayV{T: Store(set.T, flatten(xv)[0], val), Sort: set.Sort, Key: set.Key}, nil
		case "substr":
			// substr(s, lo, hi): the Go string slice s[lo:hi] (the same uninterpreted function the
			// executor uses for a slice expression on a string)
			if len(ex.Args) != 3 {
				return nil, fmt.Errorf("substr(s, lo, hi)")
			}
			var ts []Term
			for _, a := range ex.Args {
				v, err := e.eval(a)
				if err != nil {
					return nil, err
				}
				sc, ok := v.(Scalar)
				if !ok {
					return nil, fmt.Errorf("substr of non-scalar")
				}
				ts = append(ts, sc.T)
			}
			f := e.x.smt.fun("str.sub", []string{SStr, SInt, SInt}, SStr)
			return Scalar{T: App(f, ts[0], ts[1], ts[2]), Sort: SStr, Typ: types.Typ[types.String]}, nil
		case "callerfresh":
			// callerfresh(x): the object was allocated during this activation (by the function
			// under proof or by a callee on its behalf)
			v, err := e.eval(ex.Args[0])
			if err != nil {
				return nil, err
			}
			var r Term
			if sv, ok := v.(SliceV); ok {
				// a slice: empty, or its backing array was allocated during this activation
				return boolV("(or (= " + sv.Len + " 0) (< (rootid " + sv.Arr + ") 0))"), nil
			}
			if mv, ok := v.(MapV); ok {
				r = mv.Ref
			} else if rr, ok := objRef(v); ok {
				r = rr
			} else {
				return nil, fmt.Errorf("callerfresh of non-object")
			}
			return boolV("(< (rootid " + r + ") 0)"), nil
		case "live":
			// live(x): every reference inside the value x points to something that exists at this
			// point (so anything allocated later is distinct from it). True of every value a
			// program can hold; stated in invariants for references kept inside containers, which
			// the generator does not assume wholesale.
			v, err := e.eval(ex.Args[0])
			if err != nil {
				return nil, err
			}
			ls := flatten(v)
			sh := leafShapeAny(valueType(v))
			var fs []Term
			for i, l := range sh {
				if i < len(ls) && l.sort == SRef {
					fs = append(fs, "(>= (rootid "+ls[i]+") "+e.st.allocLow+")")
				}
			}
			return boolV(And(fs...)), nil
		case "preexisting":
			// preexisting(x): the object was not allocated by this activation
			v, err := e.eval(ex.Args[0])
			if err != nil {
				return nil, err
			}
			r, ok := objRef(v)
			if !ok {
				return nil, fmt.Errorf("preexisting of non-object")
			}
			return boolV(preexisting(r)), nil
		case "ref":
			v, err := e.eval(ex.Args[0])
			if err != nil {
				return nil, err
			}
			r, ok := objRef(v)
			if !ok {
				return nil, fmt.Errorf("ref of non-object")
			}
			return Scalar{T: r, Sort: SRef, Typ: types.Typ[types.UnsafePointer]}, nil
		}
		if mc, ok := e.x.DB.Macros[id.Name]; ok {
			if len(ex.Args) != len(mc.Params) {
				return nil, fmt.Errorf("macro %s takes %d arguments", mc.Name, len(mc.Params))
			}
			saved := map[string]Value{}
			had := map[string]bool{}
			var vals []Value
			for _, a := range ex.Args {
				v, err := e.eval(a)
				if err != nil {
					return nil, err
				}
				vals = append(vals, v)
			}
			for i, p := range mc.Params {
				if old, ok := e.vars[p]; ok {
					saved[p], had[p] = old, true
				}
				e.vars[p] = vals[i]
			}
			v, err := e.eval(mc.Body)
			for _, p := range mc.Params {
				delete(e.vars, p)
				if had[p] {
					e.vars[p] = saved[p]
				}
			}
			return v, err
		}
		if d, ok := e.x.DB.Defines[id.Name]; ok {
			var ts []Term
			for _, a := range ex.Args {
				v, err := e.eval(a)
				if err != nil {
					return nil, err
				}
				if r, ok := objRef(v); ok {
					ts = append(ts, r)
				} else {
					ts = append(ts, flatten(v)[0])
				}
			}
			f := m.fun("spec."+d.Name, mapSorts(d.Sorts), sortName(d.Res))
			t := App(f, ts...)
			switch sortName(d.Res) {
			case SBool:
				return boolV(t), nil
			case SStr:
				return Scalar{T: t, Sort: SStr, Typ: types.Typ[types.String]}, nil
			}
			return intV(t), nil
		}
		return nil, fmt.Errorf("unknown spec function %s", id.Name)
	}
	sel, ok := ex.Fun.(ESel)
	if !ok {
		return nil, fmt.Errorf("cannot call %s", exprString(ex.Fun))
	}
	recv, err := e.eval(sel.X)
	if err != nil {
		return nil, err
	}
	var args []Value
	for _, a := range ex.Args {
		v, err := e.eval(a)
		if err != nil {
			return nil, err
		}
		args = append(args, v)
	}
	if pr, ok := recv.(pkgRef); ok {
		obj := pr.pkg.Scope().Lookup(sel.Name)
		fn, ok := obj.(*types.Func)
		if !ok {
			return nil, fmt.Errorf("%s.%s is not a function", pr.pkg.Name(), sel.Name)
		}
		key := pr.pkg.Name() + "." + sel.Name
		full := pr.pkg.Path() + "." + sel.Name
		return e.pureCall(fn, []string{key, full}, args)
	}
	// method call on a value
	t := valueType(recv)
	ms := types.NewMethodSet(t)
	var msel *types.Selection
	for i := 0; i < ms.Len(); i++ {
		if ms.At(i).Obj().Name() == sel.Name {
			msel = ms.At(i)
		}
	}
	if msel == nil {
		if _, isPtr := t.(*types.Pointer); !isPtr {
			ms = types.NewMethodSet(types.NewPointer(t))
			for i := 0; i < ms.Len(); i++ {
				if ms.At(i).Obj().Name() == sel.Name {
					msel = ms.At(i)
				}
			}
		}
	}
	if msel == nil {
		return nil, fmt.Errorf("type %s has no method %s", typeName(t), sel.Name)
	}
	fn := msel.Obj().(*types.Func)
	// a method promoted through embedded fields is called on the embedded field
	for _, fi := range msel.Index()[:len(msel.Index())-1] {
		switch rv := recv.(type) {
		case PtrV:
			fa := e.x.fieldAddr(rv, fi)
			if _, isPtr := fa.Elem.Underlying().(*types.Pointer); isPtr {
				recv = e.x.load(e.st, fa)
			} else {
				recv = fa
			}
		case StructV:
			recv = rv.F[fi]
		default:
			return nil, fmt.Errorf("cannot reach embedded receiver of %s", sel.Name)
		}
	}
	rt := fn.Type().(*types.Signature).Recv().Type()
	if pv, isPtr := recv.(PtrV); isPtr {
		if _, wantPtr := rt.Underlying().(*types.Pointer); !wantPtr {
			if _, isIface := rt.Underlying().(*types.Interface); !isIface {
				// value-receiver method called through a pointer: the receiver is the pointee, as in Go
				recv = e.x.load(e.st, pv)
			}
		}
	}
	key := "(" + typeKey(rt) + ")." + sel.Name
	full := "(" + types.TypeString(rt, nil) + ")." + sel.Name
	return e.pureCall(fn, []string{key, full, "(" + typeKey(t) + ")." + sel.Name}, append([]Value{recv}, args...))
}

func mapSorts(ss []string) []string {
	out := make([]string, len(ss))
	for i, s := range ss {
		out[i] = sortName(s)
	}
	return out
}

func eqLoose(a, b Value) Term {
	ai, ok1 := a.(IfaceV)
	_, ok2 := b.(IfaceV)
	if ok1 && !ok2 {
		if r, ok := objRef(b); ok {
			return Eq(ai.Data, r)
		}
	}
	return eqValue(a, b)
}

// pureCall evaluates a call inside a specification: only state-free kinds are allowed.
func (e *Env) pureCall(fn *types.Func, keys []string, args []Value) (Value, error) {
	x := e.x
	sig := fn.Type().(*types.Signature)
	var rt types.Type = sig.Results()
	if sig.Results().Len() == 1 {
		rt = sig.Results().At(0).Type()
	}
	spec := x.DB.lookup(keys...)
	if spec != nil {
		return e.specCall(spec, args, rt)
	}
	// accessor convention
	name := fn.Name()
	if len(args) == 1 && (strings.HasPrefix(name, "Get") || strings.HasPrefix(name, "Is") || strings.HasPrefix(name, "Has")) {
		if rv := sig.Recv(); rv != nil {
			if _, isIface := rv.Type().Underlying().(*types.Interface); !isIface {
				if sf := x.L.Prog.FuncValue(fn); sf != nil && inModule(sf) && sf.Synthetic == "" {
					// The executor inlines this getter (module code on a concrete receiver) and so
					// reads the field; the model field of the same name is unrelated to it.
					return nil, fmt.Errorf("%s is module code that is executed, not a model field: name the field it returns instead", keys[0])
				}
			}
		}
		if ref, ok := objRef(args[0]); ok {
			return x.mfRead(e.st, mfName(name), ref, nil, rt), nil
		}
	}
	return nil, fmt.Errorf("%s has no pure contract; it cannot be used in a specification", keys[0])
}

// specCall applies a pure or model-field contract inside a specification. rt may be nil for
// contracts that declare their result sort with "returns".
func (e *Env) specCall(spec *FuncSpec, args []Value, rt types.Type) (Value, error) {
	x := e.x
	if rt == nil {
		switch spec.Returns {
		case "bool":
			rt = types.Typ[types.Bool]
		case "int":
			rt = types.Typ[types.Int]
		case "string":
			rt = types.Typ[types.String]
		default:
			// a plain function named by its full path: take the result type from its declaration
			for _, k := range spec.Keys {
				k = strings.TrimSpace(k)
				i := strings.LastIndex(k, ".")
				if i <= 0 || strings.HasPrefix(k, "(") {
					continue
				}
				if p := x.L.Prog.ImportedPackage(k[:i]); p != nil {
					if fn := p.Func(k[i+1:]); fn != nil && fn.Signature.Results().Len() == 1 {
						rt = fn.Signature.Results().At(0).Type()
					} else if fn != nil && fn.Signature.Results().Len() > 1 {
						// several results: the value is a tuple, indexed with [0], [1], ...
						rt = fn.Signature.Results()
					}
				}
			}
			if rt == nil {
				return nil, fmt.Errorf("contract %s needs a 'returns bool|int|string' line to be used with call()", spec.Key)
			}
		}
	}
	switch spec.Kind {
	case "mf":
		ref, ok := objRef(args[0])
		if !ok {
			return nil, fmt.Errorf("%s: receiver is not an object", spec.Key)
		}
		var idx []mfIdx
		if len(spec.MFArgs) > 0 {
			env := x.newEnv(e.fr, e.st)
			env.callee = true
			env.inQuant = e.inQuant
			bindSpecArgs(env, spec, args)
			for _, me := range spec.MFArgs {
				v, err := env.eval(me)
				if err != nil {
					return nil, err
				}
				idx = append(idx, mfIndexOf(v))
			}
		}
		return x.mfRead(e.st, spec.MF, ref, idx, rt), nil
	case "pure":
		argTerms, argSorts := pureArgs(args)
		sh := leafShapeAny(rt)
		ts := make([]Term, len(sh))
		for i, l := range sh {
			f := x.smt.fun("pure."+spec.Key+l.suffix, argSorts, l.sort)
			ts[i] = App(f, argTerms...)
		}
		v, _ := unflatten(rt, ts)
		if len(spec.Ensures) > 0 && e.inQuant > 0 && e.side != nil && e.sideDepth < 2 {
			env := x.newEnv(e.fr, e.st)
			env.callee = true
			env.inQuant = e.inQuant
			env.side = e.side
			env.sideDepth = e.sideDepth + 1
			env.ambig = 1 // the postcondition itself is only ever used, never to be established
			bindSpecArgs(env, spec, args)
			bindResults(env, v)
			for _, en := range spec.Ensures {
				if t, err := env.evalBool(en.E); err == nil && t != "true" {
					dup := false
					for _, o := range *e.side {
						if o == t {
							dup = true
						}
					}
					if !dup {
						*e.side = append(*e.side, t)
					}
				}
			}
		}
		if len(spec.Ensures) > 0 && e.inQuant == 0 {
			env := x.newEnv(e.fr, e.st)
			env.callee = true
			bindSpecArgs(env, spec, args)
			bindResults(env, v)
			for _, en := range spec.Ensures {
				if t, err := env.evalBool(en.E); err == nil {
					x.smt.assume(t)
				}
			}
		}
		return v, nil
	}
	return nil, fmt.Errorf("%s is not pure (kind %q); it cannot be used in a specification", spec.Key, spec.Kind)
}

// bindSpecArgs names the arguments of a contract application the way applySpec does: methods
// (keys starting with "(" or "*.") get recv, a0, a1, ...; functions get a0, a1, ...
func bindSpecArgs(env *Env, spec *FuncSpec, args []Value) {
	isMethod := strings.HasPrefix(spec.Key, "(") || strings.HasPrefix(spec.Key, "*.")
	if len(args) > 0 {
		env.vars["recv"] = args[0]
	}
	off := 0
	if isMethod {
		off = 1
	}
	for i := 0; i+off < len(args); i++ {
		env.vars[fmt.Sprintf("a%d", i)] = args[i+off]
	}
}

// evalOld evaluates in the entry state, where only parameters exist.
func (e *Env) evalOld(ex Expr) (Value, error) {
	sub := &Env{x: e.x, fr: e.fr, cur: e.cur, st: e.old, old: e.old, vars: map[string]Value{}, pos: e.pos, inQuant: e.inQuant, callee: e.callee, side: e.side, sideDepth: e.sideDepth, assumeMode: e.assumeMode, negPol: e.negPol, ambig: e.ambig}
	for k, v := range e.vars {
		sub.vars[k] = v // bound variables, metavariables passed explicitly
	}
	for k, v := range e.fr.params {
		if _, ok := sub.vars[k]; !ok {
			sub.vars[k] = v
		}
	}
	if e.pre != nil && e.callee {
		sub.st = e.pre
	}
	return sub.eval(ex)
}

func (e *Env) typeExpr(ex Expr) (types.Type, error) {
	switch t := ex.(type) {
	case EUnary:
		if t.Op == "*" {
			in, err := e.typeExpr(t.X)
			if err != nil {
				return nil, err
			}
			return types.NewPointer(in), nil
		}
	case ESel:
		v, err := e.eval(t)
		if err != nil {
			return nil, err
		}
		if tr, ok := v.(typeRef); ok {
			return tr.t, nil
		}
	case EIdent:
		if e.fr.pkg != nil {
			if tn, ok := e.fr.pkg.Scope().Lookup(t.Name).(*types.TypeName); ok {
				return tn.Type(), nil
			}
		}
		if tn, ok := types.Universe.Lookup(t.Name).(*types.TypeName); ok {
			return tn.Type(), nil
		}
	}
	return nil, fmt.Errorf("not a type: %s", exprString(ex))
}
