package main

import (
	"encoding/json"
	"flag"
	"fmt"
	"io/fs"
	"os"
	"path/filepath"
	"runtime"
	"sort"
	"strconv"
	"strings"
	"time"
)

func verifDir() string {
	if d := os.Getenv("VERIF_DIR"); d != "" {
		return d
	}
	return "/verif"
}

type baselineEntry struct {
	Name    string  `json:"name"`
	Kind    string  `json:"kind"`
	Seconds float64 `json:"seconds"`
}

type knownFinding struct {
	Prop, Obligation, What string
}

func loadKnown() ([]knownFinding, []string) {
	b, err := os.ReadFile(filepath.Join(verifDir(), "known-findings.txt"))
	if err != nil {
		return nil, nil
	}
	var out []knownFinding
	var fixed []string
	for _, l := range strings.Split(string(b), "\n") {
		l = strings.TrimSpace(l)
		if strings.HasPrefix(l, "fixed:") {
			fixed = append(fixed, l)
			continue
		}
		if !strings.HasPrefix(l, "known:") {
			continue
		}
		f := strings.Fields(strings.TrimPrefix(l, "known:"))
		k := knownFinding{}
		var rest []string
		for _, w := range f {
			switch {
			case strings.HasPrefix(w, "property="):
				k.Prop = strings.TrimPrefix(w, "property=")
			case strings.HasPrefix(w, "obligation="):
				k.Obligation = strings.TrimPrefix(w, "obligation=")
			default:
				rest = append(rest, w)
			}
		}
		k.What = strings.Join(rest, " ")
		out = append(out, k)
	}
	return out, fixed
}

func findContractFiles() []string {
	var out []string
	root := repoDir()
	filepath.WalkDir(root, func(p string, d fs.DirEntry, err error) error {
		if err != nil {
			return nil
		}
		if d.IsDir() {
			n := d.Name()
			if n == ".git" || n == "node_modules" || n == "vendor" || (strings.HasPrefix(n, ".") && p != root) {
				return filepath.SkipDir
			}
			return nil
		}
		if d.Name() == "zz_contracts_verif.go" {
			out = append(out, p)
		}
		return nil
	})
	sort.Strings(out)
	return out
}

type checkResult struct {
	Prop       string
	Tier       string
	Obls       []*Obligation
	Funcs      []*FuncResult
	Violations []string
	Known      []string
	Undecided  []string
	Bounded    []*boundedResult
	Wall       float64
}

func cmdCheck(args []string) int {
	fl := flag.NewFlagSet("check", flag.ExitOnError)
	prop := fl.String("prop", "", "property id")
	tier := fl.String("tier", "quick", "quick|thorough")
	update := fl.Bool("update-baseline", false, "record the discharged obligations as the baseline")
	only := fl.String("only", "", "only functions whose key contains this")
	verbose := fl.Bool("v", false, "verbose")
	fl.Parse(args)
	if *prop == "" {
		fmt.Fprintln(os.Stderr, "need -prop")
		return 2
	}
	if t := os.Getenv("VERIF_TIER"); t == "quick" || t == "thorough" {
		*tier = t
	}
	t0 := time.Now()
	vd := verifDir()
	work := filepath.Join(vd, ".work", *prop)
	os.RemoveAll(work)
	os.MkdirAll(work, 0o755)
	evidencePath := filepath.Join(vd, "evidence", *prop+".json")
	if d := os.Getenv("VERIF_EVIDENCE_DIR"); d != "" {
		// selftest / seeded-change runs against a deliberately broken tree must not overwrite the committed evidence
		evidencePath = filepath.Join(d, *prop+".json")
	}
	os.MkdirAll(filepath.Dir(evidencePath), 0o755)

	fail := func(msg string) int {
		// machinery failure: no evidence is better than wrong evidence
		fmt.Fprintln(os.Stderr, "gowp: "+msg)
		return 2
	}

	db := newSpecDB()
	if err := loadDepSpecs(db, filepath.Join(vd, "contracts", "deps")); err != nil {
		return fail(err.Error())
	}
	files := findContractFiles()
	fileOf := map[*FuncSpec]string{}
	for _, f := range files {
		b, err := os.ReadFile(f)
		if err != nil {
			return fail(err.Error())
		}
		before := map[*FuncSpec]bool{}
		for _, s := range db.Funcs {
			before[s] = true
		}
		for _, s := range db.Verify {
			before[s] = true
		}
		if err := parseSpecText(db, string(b), f, "//@", false); err != nil {
			return fail(err.Error())
		}
		for _, s := range db.Funcs {
			if !before[s] {
				fileOf[s] = f
			}
		}
		for _, s := range db.Verify {
			if !before[s] {
				fileOf[s] = f
			}
		}
	}
	// functions under contract for this property
	var specs []*FuncSpec
	seen := map[*FuncSpec]bool{}
	dirs := map[string]bool{}
	allSpecs := map[string]*FuncSpec{}
	for k, s := range db.Funcs {
		allSpecs[k] = s
	}
	for k, s := range db.Verify {
		allSpecs["verify:"+k] = s
	}
	for _, k := range sortedKeys(allSpecs) {
		s := allSpecs[k]
		if s.Assumed || seen[s] || !specMentions(s, *prop) {
			continue
		}
		if *only != "" && !strings.Contains(s.Key, *only) {
			continue
		}
		seen[s] = true
		specs = append(specs, s)
		dirs[filepath.Dir(fileOf[s])] = true
	}
	if len(specs) == 0 {
		return fail("no contracts mention property " + *prop)
	}
	var patterns []string
	for d := range dirs {
		rel, _ := filepath.Rel(repoDir(), d)
		patterns = append(patterns, "./"+rel)
	}
	sort.Strings(patterns)
	L, err := loadPackages(patterns)
	if err != nil {
		// the tree does not build with the contracts' packages: report as machinery failure
		return fail("load: " + err.Error())
	}
	tLoad := time.Since(t0).Seconds()
	fns := L.allFunctions()
	loopsPath := filepath.Join(vd, "baseline", *prop+".loops.json")
	if b, err := os.ReadFile(loopsPath); err == nil {
		json.Unmarshal(b, &baselineLoopOrdinal)
	}
	res := &checkResult{Prop: *prop, Tier: *tier}
	timeout := 10
	if *tier == "thorough" {
		timeout = 60
	}
	var all []*Obligation
	for _, s := range specs {
		fn := fns[s.Key]
		if fn == nil {
			o := &Obligation{Name: s.Key + "/anchor:function/exists", Kind: "anchor", Fn: s.Key, Props: []string{*prop}, Status: "generr",
				GenErr: "function under contract not found in the current tree"}
			all = append(all, o)
			continue
		}
		fr := verifyFunction(L, db, fn, s, verifyOpts{covers: true, sweep: s.Sweep})
		res.Funcs = append(res.Funcs, fr)
		pkgDir := ""
		if fn.Pkg != nil {
			pkgDir = strings.TrimPrefix(strings.TrimPrefix(fn.Pkg.Pkg.Path(), "github.com/crossplane/crossplane"), "/")
		}
		for _, o := range fr.Obls {
			o.PkgDir = pkgDir
			if hasProp(o.Props, *prop) || (len(o.Props) == 0 && (o.Kind == "cover" || o.Kind == "anchor" || o.Kind == "safe" || o.Label == "auto-range-bound")) {
				all = append(all, o)
			}
		}
	}
	tGen := time.Since(t0).Seconds() - tLoad
	basePath := filepath.Join(vd, "baseline", *prop+".json")
	var base []baselineEntry
	if b, err := os.ReadFile(basePath); err == nil {
		json.Unmarshal(b, &base)
	}
	baseNames := map[string]baselineEntry{}
	for _, e := range base {
		baseNames[e.Name] = e
	}
	for _, o := range all {
		if _, ok := baseNames[o.Name]; ok {
			o.InBaseline = true
		}
	}
	discharge(all, filepath.Join(work, "smt"), timeout, runtime.NumCPU())
	res.Obls = all
	if *tier == "thorough" {
		// every discharged obligation is re-decided by a second, independent solver
		confirm(all, timeout, runtime.NumCPU())
	}

	// ---- decide ----
	known, fixed := loadKnown()
	isKnown := func(name string) *knownFinding {
		for i := range known {
			if known[i].Prop == *prop && known[i].Obligation == name {
				return &known[i]
			}
		}
		return nil
	}
	byName := map[string]*Obligation{}
	for _, o := range all {
		byName[o.Name] = o
	}
	type viol struct {
		o      *Obligation
		reason string
	}
	var viols []viol
	var undecided []*Obligation
	knownSeen := map[string]bool{}
	for _, o := range all {
		ok := o.Status == "discharged" || o.Status == "covered" || o.Status == "covered-ground" || o.Status == "cover-inconclusive"
		if ok && o.Second == "sat" {
			// two solvers disagree on the same query: neither answer is believed
			o.Status = "unknown"
			o.Detail += " | second solver " + o.SecondSolver + " says sat: solver disagreement"
			ok = false
		}
		if ok {
			continue
		}
		if k := isKnown(o.Name); k != nil {
			knownSeen[o.Name] = true
			continue
		}
		_, inBase := baseNames[o.Name]
		if o.Status == "candidate" {
			// undecided by the solvers; a candidate counterexample exists: it is a violation
			// only if it reproduces on the real code
			if rp, ok := tryReplay(filepath.Join(work, "replay"), *prop, o); ok {
				o.Detail += " | candidate counterexample reproduced on the real code: " + rp
				viols = append(viols, viol{o, "candidate counterexample (solver undecided) reproduced on the real code"})
				continue
			}
			o.Status = "unknown"
		}
		switch {
		case inBase:
			viols = append(viols, viol{o, "obligation discharged on the baseline tree and now " + o.Status})
		case o.Status == "failed":
			viols = append(viols, viol{o, "new obligation refuted by the solver"})
		case len(base) > 0 && !o.Cover && (o.Status == "unknown" || o.Status == "generr"):
			// The code now generates an obligation that the unchanged tree did not have (a new
			// call site of a contracted callee, a new path to a return, a new loop) and it is not
			// discharged, even alone with four times the budget: the contract is not established
			// for the code as it stands. (Without a recorded baseline - while contracts are being
			// written - such obligations are merely listed as undecided.)
			viols = append(viols, viol{o, "new obligation (not generated from the baseline tree) is not discharged: " + o.Status})
		default:
			undecided = append(undecided, o)
		}
	}
	for _, e := range base {
		if _, ok := byName[e.Name]; !ok {
			if *only != "" {
				continue
			}
			if e.Kind == "safe" || e.Kind == "frame" || strings.Contains(e.Name, "/auto-range-bound") {
				continue // generated without a contract clause: the code construct no longer exists
			}
			if isKnown(e.Name) != nil {
				continue
			}
			if i := strings.LastIndex(e.Name, "#"); i > 0 && !strings.Contains(e.Name[i:], "/") {
				// the k-th program point of a clause: fine as long as the clause is still
				// generated at some program point (the code has fewer paths or call sites now)
				stem := e.Name[:i]
				still := false
				for n := range byName {
					if n == stem || strings.HasPrefix(n, stem+"#") {
						still = true
						break
					}
				}
				if still {
					continue
				}
			}
			o := &Obligation{Name: e.Name, Kind: e.Kind, Status: "generr", GenErr: "obligation of the baseline can no longer be generated (anchor missing)"}
			viols = append(viols, viol{o, "anchor missing"})
		}
	}
	nObl, nDis := 0, 0
	var solverSecs float64
	bySolver := map[string]int{}
	for _, o := range all {
		if o.Cover {
			continue
		}
		nObl++
		if o.Status == "discharged" {
			nDis++
			bySolver[o.Solver]++
		}
		solverSecs += o.Seconds
	}
	nCover, nCovered, nCoverInc, nCoverGround := 0, 0, 0, 0
	for _, o := range all {
		if o.Cover {
			nCover++
			if o.Status == "covered" || o.Status == "covered-ground" {
				nCovered++
			}
			if o.Status == "covered-ground" {
				nCoverGround++
			}
			if o.Status == "cover-inconclusive" {
				nCoverInc++
			}
		}
	}
	exit := 0
	replayDir := filepath.Join(work, "replay")
	os.MkdirAll(replayDir, 0o755)
	for _, k := range known {
		if k.Prop == *prop && knownSeen[k.Obligation] {
			fmt.Printf("KNOWN-FINDING: property=%s %s %s\n", *prop, k.Obligation, k.What)
			res.Known = append(res.Known, k.Obligation)
		}
	}
	for _, v := range viols {
		path, reproduced := writeReplay(replayDir, *prop, v.o, v.reason)
		suffix := ""
		if !reproduced {
			suffix = " no-failing-input-found"
		}
		fmt.Printf("failed obligation: %s (%s)\n", v.o.Name, v.reason)
		fmt.Printf("VIOLATION property=%s replay=%s%s\n", *prop, path, suffix)
		res.Violations = append(res.Violations, v.o.Name)
		exit = 1
	}
	for _, o := range undecided {
		res.Undecided = append(res.Undecided, o.Name)
	}
	// ---- bounded stand-ins (labelled bounded; never counted as proved) ----
	for _, bs := range loadBounded(*prop) {
		br := runBounded(bs, *tier, filepath.Join(work, "bounded"))
		res.Bounded = append(res.Bounded, br)
		if br.OK {
			fmt.Printf("bounded stand-in %s (%s): held on everything explored in %.1fs: %s\n", bs.Name, bs.Bound[*tier], br.Seconds, br.Report)
			continue
		}
		path := filepath.Join(replayDir, fileSafe(bs.Name)+".bounded.replay.txt")
		os.WriteFile(path, []byte(fmt.Sprintf("property: %s\nbounded stand-in: %s\nwhat: %s\nbound: %s\nre-run: cd %s && go test -overlay <overlay mapping zz_verif_bounded_test.go to %s> -vet=off -run '^%s$' .\n\n---- output ----\n%s\n",
			*prop, bs.Name, bs.What, bs.Bound[*tier], filepath.Join(repoDir(), bs.PkgDir), filepath.Join(verifDir(), bs.Template), bs.TestFunc, br.Output)), 0o644)
		suffix := " no-failing-input-found"
		if strings.Contains(br.Output, "VERIF-REPRODUCED") {
			suffix = "" // the failing input was produced by running the real code
		}
		fmt.Printf("failed bounded stand-in: %s\n", bs.Name)
		fmt.Printf("VIOLATION property=%s replay=%s%s\n", *prop, path, suffix)
		res.Violations = append(res.Violations, "bounded:"+bs.Name)
		exit = 1
	}
	if nObl == 0 {
		return fail("zero obligations generated (vacuity guard)")
	}
	res.Wall = time.Since(t0).Seconds()

	if *verbose || os.Getenv("VERIF_VERBOSE") != "" {
		for _, o := range all {
			fmt.Fprintf(os.Stderr, "  %-11s %-7s %6.2fs %s\n", o.Status, o.Solver, o.Seconds, o.Name)
			if o.GenErr != "" {
				fmt.Fprintf(os.Stderr, "      gen: %s\n", o.GenErr)
			}
			if o.Status == "unknown" || o.Status == "failed" || o.Status == "vacuous" {
				fmt.Fprintf(os.Stderr, "      %s\n      %s\n", trunc(o.Detail, 240), o.File)
			}
		}
		for _, f := range res.Funcs {
			fmt.Fprintf(os.Stderr, "  fn %s: blocks=%d instrs=%d passes=%d loops-without-invariant=%d\n", f.Key, f.Blocks, f.Instrs, f.Passes, f.LoopsNoInv)
			nn := 12
			if os.Getenv("VERIF_NOTES") != "" {
				nn = 1000
			}
			for _, n := range topNotes(f.Notes, nn) {
				fmt.Fprintf(os.Stderr, "      note: %s\n", n)
			}
		}
	}
	if nCoverInc > 0 {
		fmt.Printf("(%d reachability covers inconclusive: not refuted, not proved satisfiable)\n", nCoverInc)
	}
	if nCoverGround > 0 {
		fmt.Printf("(%d reachability covers decided on the quantifier-free part of the facts only)\n", nCoverGround)
	}
	fmt.Printf("property %s tier %s: %d obligations, %d discharged, %d/%d covers, %d undecided, %d known findings, %d violations (load %.1fs, generate %.1fs, solvers %.1fs cpu, wall %.1fs)\n",
		*prop, *tier, nObl, nDis, nCovered, nCover, len(undecided), len(res.Known), len(viols), tLoad, tGen, solverSecs, res.Wall)

	if *update {
		var nb []baselineEntry
		for _, o := range all {
			if o.Status == "discharged" || o.Status == "covered" || o.Status == "covered-ground" || o.Status == "cover-inconclusive" {
				nb = append(nb, baselineEntry{o.Name, o.Kind, roundTo(o.Seconds, 2)})
			}
		}
		sort.Slice(nb, func(i, j int) bool { return nb[i].Name < nb[j].Name })
		os.MkdirAll(filepath.Dir(basePath), 0o755)
		b, _ := json.MarshalIndent(nb, "", " ")
		os.WriteFile(basePath, append(b, '\n'), 0o644)
		fmt.Printf("baseline written: %d obligations\n", len(nb))
		lb, _ := json.MarshalIndent(loopOrdinalSeen, "", " ")
		os.WriteFile(loopsPath, append(lb, '\n'), 0o644)
	}

	// ---- evidence ----
	writeEvidence(evidencePath, res, nObl, nDis, nCover, nCovered, bySolver, solverSecs, tLoad, tGen, fixed, len(base))
	return exit
}

func roundTo(f float64, n int) float64 {
	s := strconv.FormatFloat(f, 'f', n, 64)
	r, _ := strconv.ParseFloat(s, 64)
	return r
}

func writeReplay(dir, prop string, o *Obligation, reason string) (string, bool) {
	path := filepath.Join(dir, fileSafe(o.Name)+".replay.txt")
	var b strings.Builder
	fmt.Fprintf(&b, "property: %s\nfailed obligation: %s\nkind: %s\nreason: %s\nsource position: %s\nclause: %s\n", prop, o.Name, o.Kind, reason, o.Pos, o.Src)
	if o.GenErr != "" {
		fmt.Fprintf(&b, "generation: %s\n", o.GenErr)
	}
	fmt.Fprintf(&b, "solver status: %s (%s)\nsolver detail: %s\nquery file: %s\n", o.Status, o.Solver, o.Detail, o.File)
	if o.Model != "" {
		fmt.Fprintf(&b, "\n---- solver model (counterexample to the obligation) ----\n%s\n", summariseModel(o.Model))
	}
	os.WriteFile(path, []byte(b.String()), 0o644)
	// concretise and replay on the real code where a concretiser exists
	if rp, ok := tryReplay(dir, prop, o); ok {
		return rp, true
	}
	return path, false
}

// summariseModel keeps the scalar definitions of a model, dropping big array/function bodies.
func summariseModel(model string) string {
	lines := strings.Split(model, "\n")
	var out []string
	for i := 0; i < len(lines); i++ {
		l := lines[i]
		if strings.Contains(l, "(define-fun ") && i+1 < len(lines) {
			body := strings.TrimSpace(lines[i+1])
			if strings.Contains(l, "() Int") || strings.Contains(l, "() Bool") || strings.Contains(l, "() Str") {
				out = append(out, strings.TrimSpace(l)+" "+body)
			}
		}
		if len(out) > 400 {
			break
		}
	}
	if len(out) == 0 {
		return trunc(model, 4000)
	}
	return strings.Join(out, "\n")
}

func writeEvidence(path string, res *checkResult, nObl, nDis, nCover, nCovered int, bySolver map[string]int, solverSecs, tLoad, tGen float64, fixed []string, nBase int) {
	seed := 0
	if s := os.Getenv("VERIF_SEED"); s != "" {
		seed, _ = strconv.Atoi(s)
	}
	var fnsUnder []map[string]any
	assumed := map[string]int{}
	notes := map[string]int{}
	for _, f := range res.Funcs {
		n := 0
		for _, o := range f.Obls {
			if hasProp(o.Props, res.Prop) {
				n++
			}
		}
		fnsUnder = append(fnsUnder, map[string]any{"function": f.Key, "blocks": f.Blocks, "instructions": f.Instrs, "obligations_for_property": n,
			"loops_without_invariant": f.LoopsNoInv, "abstractions": topNotes(f.Notes, 8)})
		for k, v := range f.Assumed {
			assumed[k] += v
		}
		for k, v := range f.Notes {
			notes[k] += v
		}
	}
	var samples []map[string]any
	var perObl []map[string]any
	for _, o := range res.Obls {
		e := map[string]any{"name": o.Name, "kind": o.Kind, "status": o.Status, "solver": o.Solver, "seconds": roundTo(o.Seconds, 3)}
		if o.SecondSolver != "" {
			e["second_solver"] = o.SecondSolver
			e["second_answer"] = o.Second
		}
		if o.GenErr != "" {
			e["gen_error"] = o.GenErr
		}
		if len(o.NameSensitive) > 0 {
			e["name_sensitive"] = o.NameSensitive
		}
		perObl = append(perObl, e)
		if len(samples) < 6 && !o.Cover && o.Status == "discharged" && o.Kind != "safe" {
			samples = append(samples, map[string]any{"obligation": o.Name, "clause": o.Src, "at": o.Pos, "solver": o.Solver, "smt_file": o.File})
		}
	}
	if len(samples) == 0 {
		for _, o := range res.Obls {
			if len(samples) < 4 {
				samples = append(samples, map[string]any{"obligation": o.Name, "clause": o.Src, "status": o.Status})
			}
		}
	}
	var assumedList []string
	for _, k := range sortedKeys(assumed) {
		assumedList = append(assumedList, fmt.Sprintf("assumed contract: %s (used %d×)", k, assumed[k]))
	}
	assumptions := []string{
		"the VC generator gowp and its Go semantics for the supported subset (DESIGN.md §2.3); go/packages, go/types, go/ssa (x/tools v0.29.0); z3 4.8.12, z3 5.1.0, cvc5 1.0.x",
		"machine integers treated as mathematical integers; floats as reals",
		"goroutine interleavings, panics inside dependencies and I/O are not modelled",
		"append always yields a fresh backing array (aliasing through spare capacity not modelled)",
	}
	assumptions = append(assumptions, assumedList...)
	for _, n := range topNotes(notes, 15) {
		assumptions = append(assumptions, "abstraction: "+n)
	}
	ev := map[string]any{
		"property_id": res.Prop,
		"tier":        res.Tier,
		"seed":        seed,
		"level":       "proof",
		"wall_s":      roundTo(res.Wall, 2),
		"violations":  len(res.Violations),
		"assumptions": assumptions,
		"coverage": map[string]any{
			"obligations":              nObl,
			"discharged":               nDis,
			"checker_cmd":              fmt.Sprintf("/verif/bin/gowp check -prop %s -tier %s", res.Prop, res.Tier),
			"trusted_base":             assumptions[:4],
			"covers_checked":           nCover,
			"covers_satisfiable":       nCovered,
			"discharged_by_backend":    bySolver,
			"solver_cpu_s":             roundTo(solverSecs, 2),
			"load_s":                   roundTo(tLoad, 2),
			"generate_s":               roundTo(tGen, 2),
			"functions_under_contract": fnsUnder,
			"per_obligation":           perObl,
			"undecided":                res.Undecided,
			"known_findings":           res.Known,
			"violating_obligations":    res.Violations,
			"baseline_obligations":     nBase,
			"fixed_findings":           fixed,
			"samples":                  samples,
		},
	}
	if res.Tier == "thorough" {
		agreed, single := 0, 0
		for _, o := range res.Obls {
			if o.Status != "discharged" || o.Solver == "trivial" {
				continue
			}
			if o.Second == "unsat" {
				agreed++
			} else {
				single++
			}
		}
		ev["coverage"].(map[string]any)["confirmed_by_second_solver"] = agreed
		ev["coverage"].(map[string]any)["decided_by_one_solver_only"] = single
	}
	if len(res.Bounded) > 0 {
		var bl []map[string]any
		for _, br := range res.Bounded {
			var rep any
			json.Unmarshal([]byte(br.Report), &rep)
			bl = append(bl, map[string]any{"name": br.Spec.Name, "label": "bounded", "what": br.Spec.What, "why_not_deductive": br.Spec.Reason,
				"bound": br.Spec.Bound[res.Tier], "held": br.OK, "seconds": roundTo(br.Seconds, 1), "report": rep,
				"counted_as_proved": false})
			assumptions = append(assumptions, "bounded (not proved): "+br.Spec.What+" - "+br.Spec.Bound[res.Tier])
		}
		ev["coverage"].(map[string]any)["bounded_stand_ins"] = bl
		ev["assumptions"] = assumptions
	}
	b, _ := json.MarshalIndent(ev, "", " ")
	os.WriteFile(path, append(b, '\n'), 0o644)
}
