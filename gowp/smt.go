package main

import (
	"fmt"
	"go/types"
	"sort"
	"strconv"
	"strings"
)

// Term is an SMT-LIB2 term rendered as text. Non-trivial terms are named with
// define-fun through (*SMT).def so that sharing is preserved (VC size stays
// linear in the CFG).
type Term = string

const (
	SInt  = "Int"
	SBool = "Bool"
	SStr  = "Str"
	SReal = "Real"
	SRef  = "Ref"
	// NilRef is the nil pointer / map / func / chan.
	NilRef = "nilref"
)

func arrSort(idx, elem string) string { return "(Array " + idx + " " + elem + ")" }

// SMT accumulates declarations, definitions and facts of one function's VC.
type SMT struct {
	decls    []string          // ordered declarations / definitions
	facts    []string          // ordered assertions (assumptions)
	n        int               // fresh counter
	strlits  map[string]string // literal -> const
	strOrder []string
	funs     map[string]string // declared uninterpreted function name -> signature
	sorts    map[string]string // const name -> sort (for model reading)
	axioms   map[string]bool
	typeIDs  map[string]int // type string -> id (also used as interface tags)
	ptrTypes []types.Type   // pointer-to-struct types numbered so far (for interface disjointness)
}

// typeIDOf numbers types; the number of a pointer type *T is the interface tag of a boxed *T
// and the dynamic type (dyntype) of every non-nil reference to a T.
func (m *SMT) typeIDOf(t types.Type) int {
	k := types.TypeString(t, nil)
	if id, ok := m.typeIDs[k]; ok {
		return id
	}
	id := len(m.typeIDs) + 1
	m.typeIDs[k] = id
	if pt, ok := t.(*types.Pointer); ok && structOf(pt.Elem()) != nil {
		m.ptrTypes = append(m.ptrTypes, t)
	}
	return id
}

func newSMT() *SMT {
	return &SMT{strlits: map[string]string{}, funs: map[string]string{}, sorts: map[string]string{}, axioms: map[string]bool{}, typeIDs: map[string]int{}}
}

func sym(s string) string {
	ok := true
	for _, c := range s {
		if !(c >= 'a' && c <= 'z' || c >= 'A' && c <= 'Z' || c >= '0' && c <= '9' || c == '_' || c == '.' || c == '!' || c == '$' || c == '@' || c == '-') {
			ok = false
			break
		}
	}
	if ok && len(s) > 0 && !(s[0] >= '0' && s[0] <= '9') && s[0] != '-' {
		return s
	}
	s = strings.NewReplacer("|", "!", "\\", "!").Replace(s)
	return "|" + s + "|"
}

func (m *SMT) fresh(hint, sort string) Term {
	m.n++
	name := sym(fmt.Sprintf("%s!%d", hint, m.n))
	m.decls = append(m.decls, fmt.Sprintf("(declare-const %s %s)", name, sort))
	m.sorts[name] = sort
	return name
}

// constant declares a named constant once.
func (m *SMT) constant(name, sort string) Term {
	name = sym(name)
	if _, ok := m.sorts[name]; !ok {
		m.decls = append(m.decls, fmt.Sprintf("(declare-const %s %s)", name, sort))
		m.sorts[name] = sort
	}
	return name
}

// def names a term.
func (m *SMT) def(hint, sort string, body Term) Term {
	if len(body) < 24 || isAtom(body) {
		return body
	}
	m.n++
	name := sym(fmt.Sprintf("%s!%d", hint, m.n))
	// a declared constant with a defining equation rather than a define-fun macro: terms stay
	// linear in size, and the name may appear in quantifier patterns
	m.decls = append(m.decls, fmt.Sprintf("(declare-const %s %s)", name, sort))
	m.facts = append(m.facts, "(= "+name+" "+body+")")
	m.sorts[name] = sort
	return name
}

func isAtom(t Term) bool { return !strings.ContainsAny(t, " (") }

func (m *SMT) fun(name string, args []string, res string) string {
	name = sym(name)
	sig := strings.Join(args, " ") + "->" + res
	if old, ok := m.funs[name]; ok {
		if old != sig {
			// same name, different signature: disambiguate
			return m.fun(strings.Trim(name, "|")+"'"+strconv.Itoa(len(m.funs)), args, res)
		}
		return name
	}
	m.funs[name] = sig
	m.decls = append(m.decls, fmt.Sprintf("(declare-fun %s (%s) %s)", name, strings.Join(args, " "), res))
	return name
}

func (m *SMT) assume(f Term) {
	if f == "true" {
		return
	}
	m.facts = append(m.facts, f)
}

func (m *SMT) axiom(key string, f Term) {
	if m.axioms[key] {
		return
	}
	m.axioms[key] = true
	m.facts = append(m.facts, f)
}

func (m *SMT) strlit(s string) Term {
	if c, ok := m.strlits[s]; ok {
		return c
	}
	c := sym(fmt.Sprintf("str!%d", len(m.strlits)))
	m.strlits[s] = c
	m.strOrder = append(m.strOrder, s)
	m.decls = append(m.decls, fmt.Sprintf("(declare-const %s Str) ; %q", c, trunc(s, 40)))
	m.sorts[c] = SStr
	return c
}

func trunc(s string, n int) string {
	s = strings.Map(func(r rune) rune {
		if r < 32 || r > 126 {
			return '?'
		}
		return r
	}, s)
	if len(s) > n {
		return s[:n] + "..."
	}
	return s
}

// prelude is emitted before everything else.
func (m *SMT) prelude() string {
	var b strings.Builder
	b.WriteString("(declare-sort Str 0)\n")
	b.WriteString("(declare-fun strlen (Str) Int)\n")
	b.WriteString("(declare-fun asite (Int) Int)\n")
	// references: base objects, struct fields and slice elements nested in them, boxed scalars
	b.WriteString("(declare-datatypes ((Ref 0)) (((base (rid Int)) (fld (fbase Ref) (fidx Int)) (elem (ebase Ref) (eidx Int)) (boxi (ubi Int)) (boxs (ubs Str)) (boxb (ubb Bool)) (boxr (ubr Real)))))\n")
	b.WriteString("(define-fun nilref () Ref (base 0))\n")
	b.WriteString("(declare-fun dyntype (Ref) Int)\n")
	// rootid: the allocation id of the base object a reference lives in. Allocations of the
	// activation under proof get strictly decreasing negative ids; every reference that is
	// read, received or returned at some point refers to an object that exists at that point.
	b.WriteString("(define-fun-rec rootid ((r Ref)) Int (ite ((_ is base) r) (rid r) (ite ((_ is fld) r) (rootid (fbase r)) (ite ((_ is elem) r) (rootid (ebase r)) 0))))\n")
	return b.String()
}

func (m *SMT) strFacts() []string {
	var out []string
	if len(m.strOrder) > 1 {
		var cs []string
		for _, s := range m.strOrder {
			cs = append(cs, m.strlits[s])
		}
		out = append(out, "(distinct "+strings.Join(cs, " ")+")")
	}
	for _, s := range m.strOrder {
		out = append(out, fmt.Sprintf("(= (strlen %s) %d)", m.strlits[s], len(s)))
	}
	return out
}

// ---- term constructors with light simplification ----

func And(ts ...Term) Term {
	var keep []Term
	for _, t := range ts {
		if t == "true" {
			continue
		}
		if t == "false" {
			return "false"
		}
		keep = append(keep, t)
	}
	switch len(keep) {
	case 0:
		return "true"
	case 1:
		return keep[0]
	}
	return "(and " + strings.Join(keep, " ") + ")"
}

func Or(ts ...Term) Term {
	var keep []Term
	for _, t := range ts {
		if t == "false" {
			continue
		}
		if t == "true" {
			return "true"
		}
		keep = append(keep, t)
	}
	switch len(keep) {
	case 0:
		return "false"
	case 1:
		return keep[0]
	}
	return "(or " + strings.Join(keep, " ") + ")"
}

func Not(t Term) Term {
	switch t {
	case "true":
		return "false"
	case "false":
		return "true"
	}
	if strings.HasPrefix(t, "(not ") && balanced(t[5:len(t)-1]) {
		return t[5 : len(t)-1]
	}
	return "(not " + t + ")"
}

func balanced(s string) bool {
	d := 0
	inq := false
	for i, c := range s {
		if c == '|' {
			inq = !inq
		}
		if inq {
			continue
		}
		if c == '(' {
			d++
		} else if c == ')' {
			d--
			if d < 0 {
				return false
			}
			if d == 0 && i != len(s)-1 {
				return false
			}
		} else if d == 0 && c == ' ' {
			return false
		}
	}
	return d == 0
}

func Implies(a, b Term) Term {
	if a == "true" {
		return b
	}
	if a == "false" || b == "true" {
		return "true"
	}
	if b == "false" {
		return Not(a)
	}
	return "(=> " + a + " " + b + ")"
}

func Eq(a, b Term) Term {
	if a == b {
		return "true"
	}
	return "(= " + a + " " + b + ")"
}

func Ite(c, a, b Term) Term {
	if c == "true" {
		return a
	}
	if c == "false" {
		return b
	}
	if a == b {
		return a
	}
	return "(ite " + c + " " + a + " " + b + ")"
}

func App(f string, args ...Term) Term {
	if len(args) == 0 {
		return f
	}
	return "(" + f + " " + strings.Join(args, " ") + ")"
}

func IntLit(n int64) Term {
	if n < 0 {
		return "(- " + strconv.FormatInt(-n, 10) + ")"
	}
	return strconv.FormatInt(n, 10)
}

func Select(a, i Term) Term   { return "(select " + a + " " + i + ")" }
func Store(a, i, v Term) Term { return "(store " + a + " " + i + " " + v + ")" }

func sortedKeys[V any](m map[string]V) []string {
	var ks []string
	for k := range m {
		ks = append(ks, k)
	}
	sort.Strings(ks)
	return ks
}
