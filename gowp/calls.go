package main

import (
	"fmt"
	"go/token"
	"go/types"
	"strconv"
	"strings"

	"golang.org/x/tools/go/ssa"
)

const maxInlineDepth = 4
const maxInlineBlocks = 60

// doCall executes a call: site obligations, then the callee's effect by contract, assumed
// dependency contract, inlining, accessor convention, or havoc.
func (x *Exec) doCall(fr *Frame, st *State, c *ssa.CallCommon, args []Value, pos token.Pos, instr *ssa.Call) Value {
	m := x.smt
	var rt types.Type = c.Signature().Results()
	if c.Signature().Results().Len() == 1 {
		rt = c.Signature().Results().At(0).Type()
	}
	bi, isBuiltin := c.Value.(*ssa.Builtin)
	if isBuiltin && (fr.parent != nil || x.root == nil || x.root.spec == nil || len(x.root.spec.Sites) == 0) {
		return x.builtin(fr, st, bi, c, args, rt, pos)
	}
	key, full := calleeKey(c)
	keys := []string{key, full}
	// a static call to a concrete method also answers to the interface-style short key
	root := fr
	for root.parent != nil {
		root = root.parent
	}
	ms := x.matchSites(root, fr, st, key, full, args, pos)
	if isBuiltin {
		res := x.builtin(fr, st, bi, c, args, rt, pos)
		if len(ms) > 0 {
			// updates and binds of a site on a builtin see its result (e.g. the slice append returns)
			x.applySiteUpdates(root, fr, st, ms, res, nil, pos)
		}
		return res
	}
	// ---- effect of the call ----
	callee := c.StaticCallee()
	spec := x.DB.lookup(keys...)
	var res Value
	pre := st
	var preSnap *State
	needOld := spec != nil && (len(spec.Ensures) > 0 || len(spec.SetMF) > 0)
	if needOld || len(ms) > 0 {
		preSnap = st.clone()
	}
	_ = pre
	if spec != nil && spec.Kind == "inline" {
		spec = nil // contract says: use the callee's body
		if callee != nil && x.canInline(fr, callee) {
			res = x.inline(fr, st, callee, args, nil, pos)
			goto done
		}
	}
	switch {
	case spec != nil:
		res = x.applySpec(fr, st, spec, c, args, rt, pos, preSnap, key)
	case callee != nil && inModule(callee) && x.canInline(fr, callee):
		res = x.inline(fr, st, callee, args, nil, pos)
	case x.closureCallee(fr, c) != nil:
		fv := x.val(fr, st, c.Value).(FuncV)
		fn := fv.Fn.(*ssa.Function)
		if x.canInline(fr, fn) {
			res = x.inline(fr, st, fn, args, fv.Env, pos)
		} else {
			res = x.havocCall(fr, st, key, args, rt, pos)
		}
	case x.devirtualised(fr, c, args) != nil:
		// inside an inlined helper: an interface method call whose receiver's dynamic type is
		// known (it was boxed from a concrete module type on the way in) is the concrete method
		fn := x.devirtualised(fr, c, args)
		recv := args[0].(IfaceV)
		cargs := append([]Value{x.unbox(recv.Data, recv.Dyn)}, args[1:]...)
		res = x.inline(fr, st, fn, cargs, nil, pos)
	default:
		if r, ok := x.accessorConvention(fr, st, c, key, args, rt); ok {
			res = r
		} else if callee != nil && x.canInline(fr, callee) {
			res = x.inline(fr, st, callee, args, nil, pos)
		} else {
			res = x.havocCall(fr, st, key, args, rt, pos)
		}
	}
done:
	if res == nil && rt != nil {
		if tt, ok := rt.(*types.Tuple); !ok || tt.Len() > 0 {
			res = m.freshValue(rt, "res")
		}
	}
	// ---- let bindings and site updates ----
	if root.spec != nil {
		for _, ld := range root.spec.Lets {
			if !calleeMatches(ld.Pattern, key, full) {
				continue
			}
			switch ld.Kind {
			case "result":
				if tv, ok := res.(TupleV); ok && ld.N < len(tv.E) {
					st.binds[ld.Var] = tv.E[ld.N]
				} else if res != nil {
					st.binds[ld.Var] = res
				}
			case "arg":
				if ld.N < len(args) {
					st.binds[ld.Var] = args[ld.N]
				}
			case "recv":
				if len(args) > 0 {
					st.binds[ld.Var] = args[0]
				}
			}
		}
	}
	x.applySiteUpdates(root, fr, st, ms, res, preSnap, pos)
	return res
}

// matched is a site clause of the contract that applies to the call (or pseudo-call) at hand.
type matched struct {
	site *SiteSpec
	env  map[string]Value
}

// matchSites finds the site clauses for a call of key/full, emits their assertion and cover
// obligations in the pre-state, and returns them for the post-call ghost updates.
func (x *Exec) matchSites(root, fr *Frame, st *State, key, full string, args []Value, pos token.Pos) []matched {
	var ms []matched
	if root.spec != nil {
		for _, s := range root.spec.Sites {
			if !calleeMatches(s.Pattern, key, full) {
				continue
			}
			env := map[string]Value{}
			okArgs := true
			for i, pat := range s.Args {
				if pat == "_" {
					continue
				}
				if strings.HasSuffix(pat, "...") {
					if i < len(args) {
						env[strings.TrimSuffix(pat, "...")] = args[len(args)-1]
					}
					break
				}
				if i >= len(args) {
					okArgs = false
					break
				}
				env[pat] = args[i]
			}
			if !okArgs {
				continue
			}
			s.matched++
			ms = append(ms, matched{s, env})
			var watches []watch
			for _, w := range s.Witness {
				wenv := x.newEnv(root, st)
				wenv.pos = pos
				wenv.cur = fr
				for k, v := range env {
					wenv.vars[k] = v
				}
				n := w.Bound
				if w.Var == "" {
					n = 1
				}
				for k := 0; k < n; k++ {
					name := w.Name
					if w.Var != "" {
						wenv.vars[w.Var] = intV(IntLit(int64(k)))
						name = fmt.Sprintf("%s[%d]", w.Name, k)
					}
					if v, err := wenv.eval(w.E); err == nil {
						if ls := flatten(v); len(ls) > 0 {
							watches = append(watches, watch{Name: name, Term: ls[0]})
						}
					}
				}
			}
			for _, a := range s.Asserts {
				x.obligeClause(root, st, a, "site", s.Label, func(e *Env) {
					for k, v := range env {
						e.vars[k] = v
					}
					e.siteWhere = s.Where
					e.siteOptional = !s.Must
					e.cur = fr
				}, pos)
				last := x.obls[len(x.obls)-1]
				last.Watch = watches
				// checked, then assumed: a site assertion is available as a lemma to what follows
				if last.GenErr == "" && last.Kind == "site" && last.Goal != "" {
					x.smt.assume(Implies(st.pc, last.AsFact))
				}
			}
			var cprops []string
			for _, a := range s.Asserts {
				for _, p := range a.Props {
					if !hasProp(cprops, p) {
						cprops = append(cprops, p)
					}
				}
			}
			x.obligeCover(root, st, "site:"+s.Label, pos)
			if len(x.obls) > 0 && x.obls[len(x.obls)-1].Cover && len(cprops) > 0 {
				x.obls[len(x.obls)-1].Props = cprops
			}
		}
	}
	return ms
}

// applySiteUpdates runs the bind/update clauses of the matched sites in the post-state.
func (x *Exec) applySiteUpdates(root, fr *Frame, st *State, ms []matched, res Value, preSnap *State, pos token.Pos) {
	for _, mt := range ms {
		for _, u := range append(append([]GhostUpdate(nil), mt.site.Binds...), mt.site.Updates...) {
			env := x.newEnv(root, st)
			env.cur = fr
			env.pos = pos
			env.old = x.entry
			env.pre = preSnap
			for k, v := range mt.env {
				env.vars[k] = v
			}
			bindResults(env, res)
			v, err := env.eval(u.E)
			if err != nil {
				x.genError(root, "site:"+mt.site.Label, "update "+u.Name, err, pos)
				continue
			}
			if strings.HasPrefix(u.Name, "$") {
				st.binds[u.Name] = v
				continue
			}
			old, ok := st.ghost[u.Name]
			if !ok {
				x.genError(root, "site:"+mt.site.Label, "update "+u.Name, fmt.Errorf("unknown ghost %s", u.Name), pos)
				continue
			}
			if mt.site.Where != nil {
				w, err := env.evalBool(mt.site.Where)
				if err != nil {
					continue // the site does not apply here
				}
				v = x.iteGhost(w, v, old)
			}
			st.ghost[u.Name] = v
		}
	}
}

func bindResults(env *Env, res Value) {
	if res == nil {
		return
	}
	if tv, ok := res.(TupleV); ok {
		for i, e := range tv.E {
			env.vars[fmt.Sprintf("result%d", i)] = e
			if iv, ok := e.(IfaceV); ok && isErrorType(iv.Typ) {
				env.vars["err"] = e
			}
		}
		if len(tv.E) > 0 {
			env.vars["result"] = tv.E[0]
		}
		return
	}
	env.vars["result"] = res
	env.vars["result0"] = res
	if iv, ok := res.(IfaceV); ok && isErrorType(iv.Typ) {
		env.vars["err"] = res
	}
}

func isErrorType(t types.Type) bool {
	if t == nil {
		return false
	}
	n, ok := t.(*types.Named)
	return ok && n.Obj().Pkg() == nil && n.Obj().Name() == "error"
}

// calleeMatches: a pattern is a callee key, a full name, or "*.Method".
func calleeMatches(pat, key, full string) bool {
	pat = strings.TrimSpace(pat)
	for _, p := range strings.Split(pat, " | ") {
		p = strings.TrimSpace(p)
		if p == key || p == full {
			return true
		}
		if strings.HasPrefix(p, "*.") {
			if i := strings.LastIndex(key, ")."); i >= 0 && key[i+2:] == p[2:] {
				return true
			}
		}
	}
	return false
}

func (x *Exec) closureCallee(fr *Frame, c *ssa.CallCommon) *ssa.Function {
	if c.IsInvoke() {
		return nil
	}
	if v, ok := fr.reg[c.Value]; ok {
		if fv, ok := v.(FuncV); ok {
			if fn, ok := fv.Fn.(*ssa.Function); ok && fn != nil {
				return fn
			}
		}
	}
	return nil
}

func (x *Exec) canInline(fr *Frame, fn *ssa.Function) bool {
	if fn == nil || fr.depth >= maxInlineDepth {
		return false
	}
	if fn.Blocks == nil && fn.Pkg != nil && inlinablePkg(fn.Pkg.Pkg.Path()) && fn.Synthetic == "" {
		fn.Pkg.Build() // build bodies of this dependency package on demand
	}
	if o := fn.Origin(); o != nil && fn.Blocks == nil && o.Pkg != nil && inlinablePkg(o.Pkg.Pkg.Path()) {
		o.Pkg.Build()
	}
	if len(fn.Blocks) == 0 || len(fn.Blocks) > maxInlineBlocks {
		return false
	}
	pkg := fn.Pkg
	if pkg == nil && fn.Origin() != nil {
		pkg = fn.Origin().Pkg
	}
	if pkg == nil || !inlinablePkg(pkg.Pkg.Path()) {
		return false
	}
	for f := fr; f != nil; f = f.parent {
		if f.fn == fn {
			return false // recursion
		}
	}
	return true
}

// inModule: the callee belongs to the crossplane module itself (inlined before the accessor
// convention is tried; dependency helpers are inlined only after it).
// devirtualised resolves an interface method call in an inlined frame to the concrete module
// method when the receiver's dynamic type is statically known; nil otherwise.
func (x *Exec) devirtualised(fr *Frame, c *ssa.CallCommon, args []Value) *ssa.Function {
	if fr.parent == nil || !c.IsInvoke() || len(args) == 0 {
		return nil
	}
	recv, ok := args[0].(IfaceV)
	if !ok || recv.Dyn == nil {
		return nil
	}
	if _, isPtr := recv.Dyn.Underlying().(*types.Pointer); !isPtr {
		return nil
	}
	sel := x.L.Prog.MethodSets.MethodSet(recv.Dyn).Lookup(c.Method.Pkg(), c.Method.Name())
	if sel == nil {
		return nil
	}
	fn := x.L.Prog.MethodValue(sel)
	if fn == nil || !inModule(fn) || fn.Synthetic != "" || !x.canInline(fr, fn) {
		return nil
	}
	return fn
}

func inModule(fn *ssa.Function) bool {
	pkg := fn.Pkg
	if pkg == nil && fn.Origin() != nil {
		pkg = fn.Origin().Pkg
	}
	if pkg == nil {
		return false
	}
	p := pkg.Pkg.Path()
	return p == "github.com/crossplane/crossplane" || strings.HasPrefix(p, "github.com/crossplane/crossplane/")
}

// inlineInit runs a package's synthetic init function (its global initialisers) on st.
func (x *Exec) inlineInit(fr *Frame, st *State, fn *ssa.Function) {
	cf := x.newFrame(fn, fr)
	if g := fn.Pkg.Var("init$guard"); g != nil {
		if p, ok := x.val(cf, st, g).(PtrV); ok {
			x.store(st, p, Scalar{T: "false", Sort: SBool, Typ: types.Typ[types.Bool]})
		}
	}
	x.runBody(cf, st)
	if len(cf.rets) > 0 {
		var sts []*State
		for _, r := range cf.rets {
			sts = append(sts, r.st)
		}
		*st = *x.mergeStates(sts)
		st.pc = "true"
	}
}

func inlinablePkg(path string) bool {
	return path == "github.com/crossplane/crossplane" || strings.HasPrefix(path, "github.com/crossplane/crossplane/") ||
		strings.HasPrefix(path, "github.com/crossplane/crossplane-runtime/") || path == "k8s.io/utils/ptr"
}

// inline executes the callee's body at the call site.
func (x *Exec) inline(fr *Frame, st *State, fn *ssa.Function, args []Value, env []Value, pos token.Pos) Value {
	m := x.smt
	cf := x.newFrame(fn, fr)
	for i, p := range fn.Params {
		if i < len(args) {
			cf.reg[p] = x.retype(args[i], p.Type())
		} else {
			cf.reg[p] = m.freshValue(p.Type(), "p."+p.Name())
		}
		cf.params[p.Name()] = cf.reg[p]
	}
	for i, fv := range fn.FreeVars {
		if i < len(env) {
			cf.reg[fv] = env[i]
		} else {
			cf.reg[fv] = m.freshValue(fv.Type(), "fv."+fv.Name())
		}
	}
	if specs := x.orphanLoops[fn]; len(specs) > 0 {
		cf.spec = &FuncSpec{Loops: specs}
		cf.bindLoopSpecs()
	}
	saveDefers := st.defers
	st.defers = nil
	x.runBody(cf, st)
	if len(cf.rets) == 0 {
		// callee never returns normally (panics)
		st.pc = "false"
		return nil
	}
	var sts []*State
	for _, r := range cf.rets {
		sts = append(sts, r.st)
	}
	merged := x.mergeStates(sts)
	var res Value
	for i := len(cf.rets) - 1; i >= 0; i-- {
		r := cf.rets[i]
		if r.val == nil {
			continue
		}
		if res == nil {
			res = r.val
		} else {
			res = m.iteValue(r.st.pc, r.val, res)
		}
	}
	*st = *merged
	st.defers = saveDefers
	return res
}

func (x *Exec) havocCall(fr *Frame, st *State, key string, args []Value, rt types.Type, pos token.Pos) Value {
	x.frameRef(fr, st, "", "call without contract ("+key+")", pos)
	if x.inInit {
		x.note("call inside a package initialiser treated as effect-free")
	} else {
		x.note("call without contract, havoc: " + key + " at " + x.pos(pos))
		x.havocAll(st, key)
	}
	if rt == nil {
		return nil
	}
	if tt, ok := rt.(*types.Tuple); ok && tt.Len() == 0 {
		return nil
	}
	return x.smt.freshValue(rt, "hv")
}

// accessorConvention: a method Get*/Is*/Has* with no arguments on a pointer or interface
// receiver reads the model field of that name; Set* with one argument writes it.
func (x *Exec) accessorConvention(fr *Frame, st *State, c *ssa.CallCommon, key string, args []Value, rt types.Type) (Value, bool) {
	i := strings.LastIndex(key, ").")
	if i < 0 || len(args) == 0 {
		return nil, false
	}
	name := key[i+2:]
	ref, ok := objRef(args[0])
	if !ok {
		return nil, false
	}
	switch {
	case len(args) == 1 && (strings.HasPrefix(name, "Get") || strings.HasPrefix(name, "Is") || strings.HasPrefix(name, "Has")) && rt != nil:
		if tt, ok := rt.(*types.Tuple); ok && tt.Len() != 1 {
			return nil, false
		}
		x.assumed["accessor convention: "+name+"() reads model field "+mfName(name)]++
		return x.mfRead(st, mfName(name), ref, nil, rt), true
	case len(args) == 2 && strings.HasPrefix(name, "Set"):
		x.assumed["accessor convention: "+name+"(v) writes model field "+mfName(name)]++
		x.frameRef(fr, st, ref, "model-field write by "+name, token.NoPos)
		x.mfWrite(st, mfName(name), ref, nil, args[1])
		return nil, true
	}
	return nil, false
}

func mfName(method string) string {
	for _, p := range []string{"Get", "Set"} {
		if strings.HasPrefix(method, p) && len(method) > len(p) {
			return method[len(p):]
		}
	}
	return method
}

// embeddedFieldIDs: ids of (fld _ id) constructors that address an embedded (anonymous) struct
// field. A method promoted from an embedded field acts on the enclosing object: its model
// fields are those of the outermost object, whichever static path the call took.
var embeddedFieldIDs = map[string]bool{}

func objRef(v Value) (Term, bool) {
	switch v := v.(type) {
	case PtrV:
		if v.Cell != nil {
			return "", false
		}
		return canonObj(v.Ref), true
	case IfaceV:
		return canonObj(v.Data), true
	}
	return "", false
}

func canonObj(ref Term) Term {
	for strings.HasPrefix(ref, "(fld ") && strings.HasSuffix(ref, ")") {
		body := ref[5 : len(ref)-1]
		i := strings.LastIndex(body, " ")
		if i < 0 || !embeddedFieldIDs[body[i+1:]] {
			break
		}
		ref = body[:i]
	}
	return ref
}

// mfIdx is an extra index of a model field (e.g. the condition type of GetCondition).
type mfIdx struct {
	T    Term
	Sort string
}

func mfIndexOf(v Value) mfIdx {
	if r, ok := objRef(v); ok {
		return mfIdx{T: r, Sort: SRef}
	}
	sh := leafShapeAny(valueType(v))
	return mfIdx{T: flatten(v)[0], Sort: sh[0].sort}
}

// pureArgs flattens call arguments for an uninterpreted pure function: objects (pointers and
// interface values) contribute their reference only.
func pureArgs(args []Value) (terms []Term, sorts []string) {
	for _, a := range args {
		if r, ok := objRef(a); ok {
			terms = append(terms, r)
			sorts = append(sorts, SRef)
			continue
		}
		if pv, ok := a.(PtrV); ok {
			terms = append(terms, pv.Ref)
			sorts = append(sorts, SRef)
			continue
		}
		ls := flatten(a)
		sh := leafShapeAny(valueType(a))
		for i := range ls {
			terms = append(terms, ls[i])
			sorts = append(sorts, sh[i].sort)
		}
	}
	return
}

func (x *Exec) mfRead(st *State, field string, ref Term, idx []mfIdx, t types.Type) Value {
	sh := leafShapeAny(t)
	ts := make([]Term, len(sh))
	for i, l := range sh {
		sort := l.sort
		for j := len(idx) - 1; j >= 0; j-- {
			sort = arrSort(idx[j].Sort, sort)
		}
		name := "MF." + field + l.suffix + ":" + l.sort
		a := Select(x.arr(st, name, arrSort(SRef, sort)), x.mfSource(st, name, ref))
		for _, ix := range idx {
			a = Select(a, ix.T)
		}
		ts[i] = a
	}
	v, _ := unflatten(t, ts)
	return v
}

func (x *Exec) mfWrite(st *State, field string, ref Term, idx []mfIdx, v Value) {
	t := valueType(v)
	sh := leafShapeAny(t)
	ls := flatten(v)
	for i, l := range sh {
		sort := l.sort
		for j := len(idx) - 1; j >= 0; j-- {
			sort = arrSort(idx[j].Sort, sort)
		}
		name := "MF." + field + l.suffix + ":" + l.sort
		as := arrSort(SRef, sort)
		a := x.arr(st, name, as)
		var nv Term
		if len(idx) == 0 {
			nv = Store(a, ref, ls[i])
		} else {
			nv = Store(a, ref, Store(Select(a, ref), idx[0].T, ls[i]))
		}
		x.setArr(st, name, as, nv)
	}
}

// applySpec applies a contract (assumed dependency contract or verified in-repo contract).
func (x *Exec) applySpec(fr *Frame, st *State, spec *FuncSpec, c *ssa.CallCommon, args []Value, rt types.Type, pos token.Pos, pre *State, key string) Value {
	m := x.smt
	spec.Used++
	if spec.Assumed {
		x.assumed[spec.Key]++
	} else {
		x.assumed["contract of "+spec.Key+" (verified separately)"]++
	}
	env := x.newEnv(fr, st)
	env.pos = pos
	env.callee = true
	x.bindCallArgs(env, c, args)
	// preconditions
	root := fr
	for root.parent != nil {
		root = root.parent
	}
	for _, r := range spec.Requires {
		x.obligeClause(root, st, r, "pre", key, func(e *Env) {
			for k, v := range env.vars {
				e.vars[k] = v
			}
			e.callee = true
		}, pos)
	}
	var res Value
	noResult := rt == nil
	if tt, ok := rt.(*types.Tuple); ok && tt.Len() == 0 {
		noResult = true
	}
	switch spec.Kind {
	case "pure":
		if !noResult {
			pargs := args
			if c.Signature().Variadic() && len(pargs) > 0 {
				// an empty variadic tail is not an argument
				if sv, ok := pargs[len(pargs)-1].(SliceV); ok && sv.Arr == NilRef {
					pargs = pargs[:len(pargs)-1]
				} else if ok {
					// a variadic tail of statically known length is passed element by element (the
					// slice that carries it is a fresh allocation at every call)
					if n, err := strconv.Atoi(sv.Len); err == nil && n >= 0 && n <= 4 {
						pargs = append([]Value(nil), pargs[:len(pargs)-1]...)
						for k := 0; k < n; k++ {
							pargs = append(pargs, x.elemLoad(st, sv, IntLit(int64(k))))
						}
					}
				}
			}
			argTerms, argSorts := pureArgs(pargs)
			sh := leafShapeAny(rt)
			ts := make([]Term, len(sh))
			for i, l := range sh {
				f := m.fun("pure."+spec.Key+l.suffix, argSorts, l.sort)
				ts[i] = m.def("pure", l.sort, App(f, argTerms...))
			}
			res, _ = unflatten(rt, ts)
		}
	case "mf":
		ref, ok := objRef(args[0])
		if ok && !noResult {
			var idx []mfIdx
			for _, e := range spec.MFArgs {
				v, err := env.eval(e)
				if err == nil {
					idx = append(idx, mfIndexOf(v))
				}
			}
			res = x.mfRead(st, spec.MF, ref, idx, rt)
		}
	case "nofx", "setmf":
	case "fresh":
		// constructor: the result is a newly allocated object (distinct from everything that exists)
		if !noResult {
			res = m.freshValue(rt, "new."+shortKey(key))
			ref := x.newRefIn(fr, st, "new")
			switch rv := res.(type) {
			case IfaceV:
				rv.Data = ref
				x.assumeAt(st, Not(Eq(rv.Tag, "0")))
				res = rv
			case PtrV:
				rv.Ref = ref
				res = rv
			case MapV:
				rv.Ref = ref
				res = rv
			}
		}
	case "":
		if !spec.Assumed && spec.Frame == "fresh-only" {
			// verified frame: nothing the caller can see is written
		} else if !spec.Assumed && strings.HasPrefix(spec.Frame, "writes ") {
			// verified frame: only the listed parameters' objects are written
			sig := c.Signature()
			off := 0
			if c.IsInvoke() || sig.Recv() != nil {
				off = 1
			}
			for _, pn := range strings.Fields(strings.TrimPrefix(spec.Frame, "writes ")) {
				for i := 0; i < sig.Params().Len(); i++ {
					if sig.Params().At(i).Name() != pn || i+off >= len(args) {
						continue
					}
					switch a := args[i+off].(type) {
					case MapV:
						x.frameRef(fr, st, a.Ref, "map rewritten by "+key, pos)
						x.havocMap(st, a)
					case PtrV:
						if r, ok := objRef(a); ok {
							x.frameRef(fr, st, r, "object rewritten by "+key, pos)
							x.havocObject(st, r, a.Elem)
						}
					case IfaceV:
						if r, ok := objRef(a); ok {
							x.frameRef(fr, st, r, "object rewritten by "+key, pos)
							x.havocObject(st, r, nil)
						}
					}
				}
			}
		} else if !spec.Assumed && len(spec.Modifies) == 0 {
			x.frameRef(fr, st, "", "call to "+key+" (no frame)", pos)
			x.havocAll(st, key)
		} else if len(spec.Ensures) == 0 && len(spec.Effects) == 0 && len(spec.Havoc) == 0 && len(spec.SetMF) == 0 {
			x.havocAll(st, key)
		}
	case "havoc":
		x.havocAll(st, key)
	}
	if len(spec.Effects) > 0 {
		x.frameRef(fr, st, "", "effectful call ("+key+")", pos)
	}
	if (len(spec.HavocMF) > 0 || len(spec.SetMF) > 0) && len(args) > 0 {
		if ref, ok := objRef(args[0]); ok {
			x.frameRef(fr, st, ref, "model-field write by "+key, pos)
		}
	}
	for _, h := range spec.Havoc {
		if h < len(args) {
			if ref, ok := objRef(args[h]); ok {
				x.frameRef(fr, st, ref, "object rewritten by "+key, pos)
				var elem types.Type
				switch a := args[h].(type) {
				case PtrV:
					elem = a.Elem
				case IfaceV:
					if a.Dyn != nil {
						if pt, ok := a.Dyn.Underlying().(*types.Pointer); ok {
							elem = pt.Elem()
						}
					}
				}
				x.havocObject(st, ref, elem)
			}
		}
	}
	for _, h := range spec.HavocElems {
		if h >= len(args) {
			continue
		}
		var sv SliceV
		okSlice := false
		switch a := args[h].(type) {
		case SliceV:
			sv, okSlice = a, true
		case IfaceV:
			if a.Dyn != nil {
				if _, isSlice := a.Dyn.Underlying().(*types.Slice); isSlice {
					sv, okSlice = x.unbox(a.Data, a.Dyn).(SliceV)
				}
			}
		}
		if !okSlice {
			x.note("havocelems: argument is not a slice of statically known type; whole heap havocked (" + key + ")")
			x.havocAll(st, key)
			continue
		}
		elem := sv.Typ.Underlying().(*types.Slice).Elem()
		sh := leafShape(elem)
		if structOf(elem) != nil {
			// struct elements are objects: their fields live in the per-(type, field) arrays.
			// Rewriting the elements in place is over-approximated by forgetting those arrays
			// (for every object of the element type and of the struct types nested in it).
			x.frameRef(fr, st, sv.Arr, "slice elements rewritten by "+key, pos)
			var rec func(t types.Type, depth int)
			rec = func(t types.Type, depth int) {
				stt := structOf(t)
				if stt == nil || depth > 5 {
					return
				}
				for i := 0; i < stt.NumFields(); i++ {
					ft := stt.Field(i).Type()
					if structOf(ft) != nil {
						rec(ft, depth+1)
						continue
					}
					for _, l := range leafShape(ft) {
						name := fieldArrayName(t, stt.Field(i)) + l.suffix
						sort := arrSort(SRef, l.sort)
						x.arr(st, name, sort)
						x.setArr(st, name, sort, m.fresh(name+"@elems", sort))
					}
				}
			}
			rec(elem, 0)
			continue
		}
		x.frameRef(fr, st, sv.Arr, "slice elements rewritten by "+key, pos)
		for _, l := range sh {
			name := "E." + typeName(elem) + l.suffix
			sort := leafArrSort(2, l.sort)
			A := x.arr(st, name, sort)
			x.setArr(st, name, sort, Store(A, sv.Arr, m.fresh("elems", arrSort(SInt, l.sort))))
		}
	}
	for _, f := range spec.HavocMF {
		if ref, ok := objRef(args[0]); ok {
			for _, name := range sortedKeys(st.heap) {
				if strings.HasPrefix(name, "MF."+f+":") || strings.HasPrefix(name, "MF."+f+"#") || strings.HasPrefix(name, "MF."+f+".") {
					sort := x.arrays[name]
					inner := strings.TrimSuffix(strings.TrimPrefix(sort, "(Array Ref "), ")")
					fv := m.fresh("mfh", inner)
					if inner == SRef {
						m.assume(Implies(st.pc, "(>= (rootid "+fv+") "+st.allocLow+")"))
					}
					st.heap[name] = m.def(name, sort, Store(st.heap[name], ref, fv))
				}
			}
		}
	}
	for _, u := range spec.SetMF {
		v, err := env.eval(u.E)
		if err != nil {
			x.note("setmf evaluation failed: " + err.Error())
			continue
		}
		if ref, ok := objRef(args[0]); ok {
			x.mfWrite(st, u.Name, ref, nil, v)
		}
	}
	for _, e := range spec.Effects {
		g, ok := st.ghost[e]
		if !ok {
			g = Scalar{T: "0", Sort: SInt, Typ: types.Typ[types.Int]}
		}
		st.ghost[e] = Scalar{T: m.def("g."+e, SInt, "(+ "+flatten(g)[0]+" 1)"), Sort: SInt, Typ: types.Typ[types.Int]}
	}
	if res == nil && !noResult {
		res = m.freshValue(rt, "r."+shortKey(key))
	}
	// postconditions are assumed
	if len(spec.Ensures) > 0 {
		env2 := x.newEnv(fr, st)
		env2.pos = pos
		env2.callee = true
		env2.pre = pre
		x.bindCallArgs(env2, c, args)
		bindResults(env2, res)
		// callid: a value unique to this application (to index per-call ghost functions)
		env2.vars["callid"] = intV(m.fresh("callid", SInt))
		for _, en := range spec.Ensures {
			env2.assumeMode = true
			t, err := env2.evalBool(en.E)
			if err != nil {
				x.note(fmt.Sprintf("ensures of %s not applicable here: %v", spec.Key, err))
				continue
			}
			x.assumeAt(st, t)
		}
	}
	return res
}

func shortKey(k string) string {
	if i := strings.LastIndex(k, "."); i >= 0 {
		return k[i+1:]
	}
	return k
}

// bindCallArgs binds recv/a0.. and the callee's parameter names.
func (x *Exec) bindCallArgs(env *Env, c *ssa.CallCommon, args []Value) {
	sig := c.Signature()
	off := 0
	if c.IsInvoke() || sig.Recv() != nil {
		if len(args) > 0 {
			env.vars["recv"] = args[0]
			if sig.Recv() != nil && sig.Recv().Name() != "" {
				env.vars[sig.Recv().Name()] = args[0]
			}
		}
		off = 1
	}
	for i := 0; i+off < len(args); i++ {
		env.vars[fmt.Sprintf("a%d", i)] = args[i+off]
		if i < sig.Params().Len() && sig.Params().At(i).Name() != "" && sig.Params().At(i).Name() != "_" {
			env.vars[sig.Params().At(i).Name()] = args[i+off]
		}
	}
	if fn := c.StaticCallee(); fn != nil && sig.Recv() == nil && len(fn.Params) == len(args) {
		for i, p := range fn.Params {
			env.vars[p.Name()] = args[i]
		}
	}
}

func (x *Exec) builtin(fr *Frame, st *State, b *ssa.Builtin, c *ssa.CallCommon, args []Value, rt types.Type, pos token.Pos) Value {
	m := x.smt
	intV := func(t Term) Value { return Scalar{T: t, Sort: SInt, Typ: types.Typ[types.Int]} }
	switch b.Name() {
	case "len":
		switch a := args[0].(type) {
		case SliceV:
			return intV(a.Len)
		case MapV:
			card := x.mapCard(st, a)
			x.assumeAt(st, "(>= "+card+" 0)")
			// a map of length zero has no keys
			mt := a.Typ.Underlying().(*types.Map)
			ks := x.keySort(mt.Key())
			dom := x.mapDom(st, a)
			x.assumeAt(st, Implies(Eq(card, "0"), fmt.Sprintf("(forall ((q %s)) (! (not (select %s q)) :pattern ((select %s q))))", ks, dom, dom)))
			return intV(m.def("len", SInt, Ite(Eq(a.Ref, NilRef), "0", card)))
		case Scalar:
			if a.Sort == SStr {
				m.assume("(>= " + App("strlen", a.T) + " 0)")
				return intV(App("strlen", a.T))
			}
		case PtrV:
			if at, ok := a.Elem.Underlying().(*types.Array); ok {
				return intV(IntLit(at.Len()))
			}
		}
	case "cap":
		if a, ok := args[0].(SliceV); ok {
			return intV(a.Cap)
		}
	case "append":
		n := -1
		if len(c.Args) == 2 {
			if sl, ok := c.Args[1].(*ssa.Slice); ok {
				if al, ok := sl.X.(*ssa.Alloc); ok {
					if at, ok := al.Type().(*types.Pointer).Elem().Underlying().(*types.Array); ok && sl.Low == nil && sl.High == nil {
						n = int(at.Len())
					}
				}
			}
			return x.appendOp(fr, st, args[0], args[1], rt, n)
		}
		return args[0]
	case "delete":
		if mv, ok := args[0].(MapV); ok {
			x.frameRef(fr, st, mv.Ref, "map delete", pos)
			x.mapDelete(st, mv, args[1])
			return nil
		}
	case "copy":
		x.note("copy() abstracted: destination contents havoc'd")
		x.havocAll(st, "copy")
		return m.freshValue(rt, "copy")
	case "panic":
		st.pc = "false"
		return nil
	case "print", "println", "close", "recover":
		if rt != nil {
			if tt, ok := rt.(*types.Tuple); !ok || tt.Len() > 0 {
				return m.freshValue(rt, b.Name())
			}
		}
		return nil
	case "ssa:wrapnilchk":
		return args[0]
	case "min", "max":
		if len(args) == 2 {
			a, ok1 := args[0].(Scalar)
			bb, ok2 := args[1].(Scalar)
			if ok1 && ok2 && a.Sort != SStr {
				cmp := "(<= " + a.T + " " + bb.T + ")"
				if b.Name() == "max" {
					cmp = "(>= " + a.T + " " + bb.T + ")"
				}
				return Scalar{T: m.def(b.Name(), a.Sort, Ite(cmp, a.T, bb.T)), Sort: a.Sort, Typ: a.Typ}
			}
		}
	}
	x.note("builtin " + b.Name() + " abstracted")
	if rt == nil {
		return nil
	}
	if tt, ok := rt.(*types.Tuple); ok && tt.Len() == 0 {
		return nil
	}
	return m.freshValue(rt, b.Name())
}
