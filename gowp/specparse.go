package main

import (
	"fmt"
	"strconv"
	"strings"
	"unicode"
)

// ---- specification expressions ----

type Expr interface{}

type (
	EIdent struct{ Name string } // x, $x, pkg (left of selector)
	EInt   struct{ V int64 }
	EStr   struct{ V string }
	EBool  struct{ V bool }
	ENil   struct{}
	EUnary struct {
		Op string
		X  Expr
	} // ! - *
	EBinary struct {
		Op   string
		X, Y Expr
	} // ==> <==> || && == != < <= > >= + - * / % in
	ESel struct {
		X    Expr
		Name string
	}
	EIndex struct{ X, I Expr }
	ECall  struct {
		Fun  Expr
		Args []Expr
	}
	EQuant struct {
		Forall bool
		Vars   []string
		Sorts  []string
		Pats   [][]Expr // optional triggers: forall i {t1, t2} {t3} :: body  (alternatives of multi-patterns)
		Body   Expr
	}
)

type tok struct {
	kind string // id int str op eof
	s    string
}

func lexSpec(src string) ([]tok, error) {
	var out []tok
	i := 0
	for i < len(src) {
		c := src[i]
		switch {
		case c == ' ' || c == '\t' || c == '\n':
			i++
		case unicode.IsLetter(rune(c)) || c == '_' || c == '$':
			j := i + 1
			for j < len(src) && (unicode.IsLetter(rune(src[j])) || unicode.IsDigit(rune(src[j])) || src[j] == '_' || src[j] == '$') {
				j++
			}
			out = append(out, tok{"id", src[i:j]})
			i = j
		case c >= '0' && c <= '9':
			j := i + 1
			for j < len(src) && src[j] >= '0' && src[j] <= '9' {
				j++
			}
			out = append(out, tok{"int", src[i:j]})
			i = j
		case c == '"':
			j := i + 1
			for j < len(src) && src[j] != '"' {
				if src[j] == '\\' {
					j++
				}
				j++
			}
			if j >= len(src) {
				return nil, fmt.Errorf("unterminated string in %q", src)
			}
			s, err := strconv.Unquote(src[i : j+1])
			if err != nil {
				return nil, err
			}
			out = append(out, tok{"str", s})
			i = j + 1
		default:
			for _, op := range []string{"<==>", "==>", "...", "::", "==", "!=", "<=", ">=", "&&", "||", "(", ")", "[", "]", "{", "}", ",", ".", "!", "<", ">", "+", "-", "*", "/", "%", ":", "=", "&"} {
				if strings.HasPrefix(src[i:], op) {
					out = append(out, tok{"op", op})
					i += len(op)
					goto next
				}
			}
			return nil, fmt.Errorf("unexpected character %q in %q", c, src)
		next:
		}
	}
	out = append(out, tok{"eof", ""})
	return out, nil
}

type specParser struct {
	toks []tok
	p    int
}

func parseSpecExpr(src string) (Expr, error) {
	toks, err := lexSpec(src)
	if err != nil {
		return nil, err
	}
	ps := &specParser{toks: toks}
	e, err := ps.expr()
	if err != nil {
		return nil, fmt.Errorf("%v in %q", err, src)
	}
	if ps.peek().kind != "eof" {
		return nil, fmt.Errorf("trailing %q in %q", ps.peek().s, src)
	}
	return e, nil
}

func (ps *specParser) peek() tok { return ps.toks[ps.p] }
func (ps *specParser) next() tok { t := ps.toks[ps.p]; ps.p++; return t }
func (ps *specParser) isOp(s string) bool {
	t := ps.peek()
	return t.kind == "op" && t.s == s
}
func (ps *specParser) expect(s string) error {
	if !ps.isOp(s) {
		return fmt.Errorf("expected %q, got %q", s, ps.peek().s)
	}
	ps.p++
	return nil
}

func (ps *specParser) expr() (Expr, error) {
	t := ps.peek()
	if t.kind == "id" && (t.s == "forall" || t.s == "exists") {
		ps.p++
		q := EQuant{Forall: t.s == "forall"}
		for {
			v := ps.next()
			if v.kind != "id" {
				return nil, fmt.Errorf("quantifier variable expected")
			}
			sort := SInt
			if ps.isOp(":") {
				ps.p++
				sort = ps.next().s
			}
			q.Vars = append(q.Vars, v.s)
			q.Sorts = append(q.Sorts, sort)
			if ps.isOp(",") {
				ps.p++
				continue
			}
			break
		}
		for ps.isOp("{") {
			ps.p++
			var pat []Expr
			for {
				t, err := ps.expr()
				if err != nil {
					return nil, err
				}
				pat = append(pat, t)
				if ps.isOp(",") {
					ps.p++
					continue
				}
				break
			}
			if err := ps.expect("}"); err != nil {
				return nil, err
			}
			q.Pats = append(q.Pats, pat)
		}
		if err := ps.expect("::"); err != nil {
			return nil, err
		}
		b, err := ps.expr()
		if err != nil {
			return nil, err
		}
		q.Body = b
		return q, nil
	}
	return ps.iff()
}

func (ps *specParser) iff() (Expr, error) {
	x, err := ps.imp()
	if err != nil {
		return nil, err
	}
	for ps.isOp("<==>") {
		ps.p++
		y, err := ps.imp()
		if err != nil {
			return nil, err
		}
		x = EBinary{"<==>", x, y}
	}
	return x, nil
}

func (ps *specParser) imp() (Expr, error) {
	x, err := ps.or()
	if err != nil {
		return nil, err
	}
	if ps.isOp("==>") {
		ps.p++
		// right associative; the right side may be a quantifier
		y, err := ps.impRHS()
		if err != nil {
			return nil, err
		}
		return EBinary{"==>", x, y}, nil
	}
	return x, nil
}

func (ps *specParser) impRHS() (Expr, error) {
	t := ps.peek()
	if t.kind == "id" && (t.s == "forall" || t.s == "exists") {
		return ps.expr()
	}
	return ps.imp()
}

func (ps *specParser) or() (Expr, error) {
	x, err := ps.and()
	if err != nil {
		return nil, err
	}
	for ps.isOp("||") {
		ps.p++
		y, err := ps.and()
		if err != nil {
			return nil, err
		}
		x = EBinary{"||", x, y}
	}
	return x, nil
}

func (ps *specParser) and() (Expr, error) {
	x, err := ps.cmp()
	if err != nil {
		return nil, err
	}
	for ps.isOp("&&") {
		ps.p++
		y, err := ps.cmp()
		if err != nil {
			return nil, err
		}
		x = EBinary{"&&", x, y}
	}
	return x, nil
}

func (ps *specParser) cmp() (Expr, error) {
	x, err := ps.add()
	if err != nil {
		return nil, err
	}
	for {
		t := ps.peek()
		if t.kind == "op" && (t.s == "==" || t.s == "!=" || t.s == "<" || t.s == "<=" || t.s == ">" || t.s == ">=") {
			ps.p++
			y, err := ps.add()
			if err != nil {
				return nil, err
			}
			x = EBinary{t.s, x, y}
			continue
		}
		if t.kind == "id" && t.s == "in" {
			ps.p++
			y, err := ps.add()
			if err != nil {
				return nil, err
			}
			x = EBinary{"in", x, y}
			continue
		}
		return x, nil
	}
}

func (ps *specParser) add() (Expr, error) {
	x, err := ps.mul()
	if err != nil {
		return nil, err
	}
	for ps.isOp("+") || ps.isOp("-") {
		op := ps.next().s
		y, err := ps.mul()
		if err != nil {
			return nil, err
		}
		x = EBinary{op, x, y}
	}
	return x, nil
}

func (ps *specParser) mul() (Expr, error) {
	x, err := ps.unary()
	if err != nil {
		return nil, err
	}
	for ps.isOp("*") || ps.isOp("/") || ps.isOp("%") {
		op := ps.next().s
		y, err := ps.unary()
		if err != nil {
			return nil, err
		}
		x = EBinary{op, x, y}
	}
	return x, nil
}

func (ps *specParser) unary() (Expr, error) {
	if ps.isOp("&") {
		ps.p++
		x, err := ps.unary()
		if err != nil {
			return nil, err
		}
		return EUnary{"&", x}, nil
	}
	if ps.isOp("!") || ps.isOp("-") || ps.isOp("*") {
		op := ps.next().s
		x, err := ps.unary()
		if err != nil {
			return nil, err
		}
		return EUnary{op, x}, nil
	}
	return ps.postfix()
}

func (ps *specParser) postfix() (Expr, error) {
	x, err := ps.primary()
	if err != nil {
		return nil, err
	}
	for {
		switch {
		case ps.isOp("."):
			ps.p++
			t := ps.next()
			if t.kind != "id" {
				return nil, fmt.Errorf("field name expected after '.'")
			}
			x = ESel{x, t.s}
		case ps.isOp("["):
			ps.p++
			i, err := ps.expr()
			if err != nil {
				return nil, err
			}
			if err := ps.expect("]"); err != nil {
				return nil, err
			}
			x = EIndex{x, i}
		case ps.isOp("("):
			ps.p++
			var args []Expr
			for !ps.isOp(")") {
				a, err := ps.expr()
				if err != nil {
					return nil, err
				}
				args = append(args, a)
				if ps.isOp(",") {
					ps.p++
				} else if !ps.isOp(")") {
					return nil, fmt.Errorf("expected , or ) got %q", ps.peek().s)
				}
			}
			ps.p++
			x = ECall{x, args}
		default:
			return x, nil
		}
	}
}

func (ps *specParser) primary() (Expr, error) {
	t := ps.next()
	switch t.kind {
	case "int":
		n, _ := strconv.ParseInt(t.s, 10, 64)
		return EInt{n}, nil
	case "str":
		return EStr{t.s}, nil
	case "id":
		switch t.s {
		case "forall", "exists":
			ps.p--
			return ps.expr()
		case "true":
			return EBool{true}, nil
		case "false":
			return EBool{false}, nil
		case "nil":
			return ENil{}, nil
		}
		return EIdent{t.s}, nil
	case "op":
		if t.s == "(" {
			e, err := ps.expr()
			if err != nil {
				return nil, err
			}
			if err := ps.expect(")"); err != nil {
				return nil, err
			}
			return e, nil
		}
	}
	return nil, fmt.Errorf("unexpected %q", t.s)
}

func exprString(e Expr) string {
	switch e := e.(type) {
	case EIdent:
		return e.Name
	case EInt:
		return strconv.FormatInt(e.V, 10)
	case EStr:
		return strconv.Quote(e.V)
	case EBool:
		return strconv.FormatBool(e.V)
	case ENil:
		return "nil"
	case EUnary:
		return e.Op + exprString(e.X)
	case EBinary:
		return "(" + exprString(e.X) + " " + e.Op + " " + exprString(e.Y) + ")"
	case ESel:
		return exprString(e.X) + "." + e.Name
	case EIndex:
		return exprString(e.X) + "[" + exprString(e.I) + "]"
	case ECall:
		var as []string
		for _, a := range e.Args {
			as = append(as, exprString(a))
		}
		return exprString(e.Fun) + "(" + strings.Join(as, ", ") + ")"
	case EQuant:
		q := "exists"
		if e.Forall {
			q = "forall"
		}
		return q + " " + strings.Join(e.Vars, ",") + " :: " + exprString(e.Body)
	}
	return "?"
}
