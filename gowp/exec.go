package main

import (
	"fmt"
	"go/ast"
	"go/token"
	"go/types"
	"sort"
	"strings"

	"golang.org/x/tools/go/ssa"
)

// State is the symbolic state at one program point.
type State struct {
	allocLow Term // lowest allocation id handed out so far on this path
	pc       Term
	cells    map[*Cell]Value
	heap     map[string]Term // array name -> current version
	ghost    map[string]Value
	binds    map[string]Value
	defers   []deferred
	// alias: object -> the object it was copied from as a whole struct value. The copy's model
	// fields equal the source's for as long as the model-field array read is still the version
	// recorded when the value was loaded.
	alias map[Term]mfAlias
}

type mfAlias struct {
	src  Term
	snap map[string]Term
}

type deferred struct {
	call *ssa.CallCommon
	args []Value
	pos  token.Pos
}

func (s *State) clone() *State {
	n := &State{allocLow: s.allocLow, pc: s.pc, cells: make(map[*Cell]Value, len(s.cells)), heap: make(map[string]Term, len(s.heap)),
		ghost: make(map[string]Value, len(s.ghost)), binds: make(map[string]Value, len(s.binds))}
	for k, v := range s.cells {
		n.cells[k] = v
	}
	for k, v := range s.heap {
		n.heap[k] = v
	}
	for k, v := range s.ghost {
		n.ghost[k] = v
	}
	for k, v := range s.binds {
		n.binds[k] = v
	}
	if len(s.alias) > 0 {
		n.alias = make(map[Term]mfAlias, len(s.alias))
		for k, v := range s.alias {
			n.alias[k] = v
		}
	}
	n.defers = append([]deferred(nil), s.defers...)
	return n
}

// Exec verifies one function (with inlined callees) and collects obligations.
type Exec struct {
	orphanLoops map[*ssa.Function][]*LoopSpec // loop clauses of the root contract whose loop lives in an inlined helper
	L           *Loaded
	DB          *SpecDB
	smt         *SMT
	root        *Frame
	arrays      map[string]string // registry: array name -> sort (stable across passes)
	grew        bool
	obls        []*Obligation
	notes       map[string]int // abstraction notes -> count
	assumed     map[string]int // assumed contracts used -> count
	typeIDs     map[string]int
	typeOf      map[int]types.Type
	nAlloc      int
	nCell       int
	entry       *State
	loopMods    map[string]map[string]bool // loop key -> names of arrays / ghosts modified by the body (fixpoint across passes)
	sweep       bool
	fnKey       string
	inlineDepth int
	covers      bool
	curFrame    *Frame
	private     map[*ssa.Alloc]bool
	keyDecls    map[string]string // datatype declarations of composite map keys (stable across passes)
	inInit      bool              // executing a package initialiser: calls have no effect on the heap
	globalsInit map[string]bool
}

// Frame is one (possibly inlined) function activation.
type Frame struct {
	allowOrdinalFallback bool // bindLoopSpecs may fall back to the recorded loop position
	x        *Exec
	fn       *ssa.Function
	reg      map[ssa.Value]Value
	cells    map[*ssa.Alloc]*Cell
	params   map[string]Value
	freevars map[string]Value // captured variables of a closure under proof: pointers to the variables
	spec     *FuncSpec
	parent   *Frame
	edgePC   map[[2]int]Term
	loops    map[int]*loopInfo // header block index -> info
	rets     []retInfo
	depth    int
	info     *types.Info
	pkg      *types.Package
	curPos   token.Pos
	iters    map[*ssa.Range]string // ghost name of visited set
	iterDom  map[*ssa.Range]Term   // key-set array term of the ranged map when the range started
}

type retInfo struct {
	st  *State
	val Value // TupleV or single or nil
	pos token.Pos
}

type loopInfo struct {
	header   *ssa.BasicBlock
	blocks   map[int]bool
	cells    map[*ssa.Alloc]bool
	heapW    bool
	anyCall  bool
	spec     *LoopSpec
	ordinal  int
	head     *State // state at the header after havoc (to detect what the body modifies)
	key      string
	rangeIdx *ssa.Alloc // rangeindex cell, if a range-over-slice loop
	lenVal   ssa.Value
	rangeX   ssa.Value
	iter     *ssa.Range
	astLoop  ast.Stmt
}

func (x *Exec) note(s string) { x.notes[s]++ }

func (x *Exec) typeID(t types.Type) Term {
	return IntLit(int64(x.smt.typeIDOf(t)))
}

// ---------- heap arrays ----------

func (x *Exec) arr(st *State, name, sort string) Term {
	if t, ok := st.heap[name]; ok {
		return t
	}
	if _, ok := x.arrays[name]; !ok {
		x.arrays[name] = sort
		x.grew = true
	}
	t := x.smt.constant(name+"@0", sort)
	st.heap[name] = t
	return t
}

func (x *Exec) setArr(st *State, name, sort string, t Term) {
	x.arr(st, name, sort)
	st.heap[name] = x.smt.def(name, sort, t)
}

func (x *Exec) havocAll(st *State, why string) {
	// Local variables that live in the heap only because a local closure captures them cannot
	// be written by an unknown callee: their values survive the havoc.
	type saved struct {
		p PtrV
		v Value
	}
	var keep []saved
	for f := x.curFrame; f != nil; f = f.parent {
		for v, val := range f.reg {
			a, ok := v.(*ssa.Alloc)
			if !ok || !a.Heap || !x.privateAlloc(a) {
				continue
			}
			if p, ok := val.(PtrV); ok && p.Cell == nil {
				keep = append(keep, saved{p, x.load(st, p)})
			}
		}
	}
	for _, name := range sortedKeys(st.heap) {
		st.heap[name] = x.smt.fresh(name+"@h", x.arrays[name])
	}
	sort.Slice(keep, func(i, j int) bool { return keep[i].p.Ref < keep[j].p.Ref })
	for _, k := range keep {
		x.store(st, k.p, k.v)
	}
}

// privateAlloc: the variable's address is only loaded from, stored to, or captured by closures
// that are themselves only called, deferred or started as goroutines by this function.
func (x *Exec) privateAlloc(a *ssa.Alloc) bool {
	if r, ok := x.private[a]; ok {
		return r
	}
	res := true
	if a.Referrers() != nil {
		for _, ref := range *a.Referrers() {
			switch r := ref.(type) {
			case *ssa.UnOp, *ssa.DebugRef:
			case *ssa.Store:
				if r.Addr != ssa.Value(a) {
					res = false
				}
			case *ssa.MakeClosure:
				if r.Referrers() != nil {
					for _, cr := range *r.Referrers() {
						switch c := cr.(type) {
						case *ssa.Go, *ssa.Defer, *ssa.DebugRef:
						case *ssa.Call:
							if c.Call.Value != ssa.Value(r) {
								res = false
							}
						case *ssa.Store:
							// stored into a local function variable: fine if that variable is private
							if al, ok := c.Addr.(*ssa.Alloc); !ok || al == a {
								res = false
							}
						default:
							res = false
						}
					}
				}
			default:
				res = false
			}
		}
	}
	x.private[a] = res
	return res
}

func (x *Exec) havocGhost(st *State) {
	for _, k := range sortedKeys(st.ghost) {
		st.ghost[k] = x.smt.freshLike(st.ghost[k], "g."+k)
	}
	for _, k := range sortedKeys(st.binds) {
		st.binds[k] = x.smt.freshLike(st.binds[k], "b."+k)
	}
}

func (m *SMT) freshLike(v Value, hint string) Value {
	if a, ok := v.(ArrayV); ok {
		return ArrayV{T: m.fresh(hint, a.Sort), Sort: a.Sort, Key: a.Key}
	}
	return m.freshValue(valueType(v), hint)
}

// ArrayV is a ghost set/array value (e.g. the visited set of a map range).
type ArrayV struct {
	T    Term
	Sort string
	Key  types.Type
}

// havocObject forgets everything known about the object at ref: all model fields and, when
// the pointee type is known, its typed fields.
func (x *Exec) havocObject(st *State, ref Term, elem types.Type) {
	for _, name := range sortedKeys(st.heap) {
		if strings.HasPrefix(name, "MF.") {
			sort := x.arrays[name]
			inner := strings.TrimSuffix(strings.TrimPrefix(sort, "(Array Ref "), ")")
			fv := x.smt.fresh("mfh", inner)
			if inner == SRef {
				x.smt.assume(Implies(st.pc, "(>= (rootid "+fv+") "+st.allocLow+")"))
			}
			st.heap[name] = x.smt.def(name, sort, Store(st.heap[name], ref, fv))
		}
	}
	if elem != nil {
		if _, ok := elem.Underlying().(*types.Interface); !ok {
			x.store(st, PtrV{Ref: ref, Elem: elem}, x.smt.freshValue(elem, "hv"))
		}
	}
}

// leafArrSort: field arrays are indexed by the object reference; element arrays by the backing
// array reference and then the position.
func leafArrSort(nidx int, elem string) string {
	if nidx == 2 {
		return arrSort(SRef, arrSort(SInt, elem))
	}
	return arrSort(SRef, elem)
}

func fieldArrayName(s types.Type, f *types.Var) string {
	return "H." + typeName(s) + "." + f.Name()
}

// derived references: constructors of the Ref datatype (injective and pairwise distinct by construction)
func (x *Exec) fldRef(s types.Type, i int, base Term) Term {
	st := structOf(s)
	id := x.refKind("fld." + typeName(s) + "." + st.Field(i).Name())
	if st.Field(i).Embedded() {
		embeddedFieldIDs[IntLit(int64(id))] = true
	}
	return "(fld " + base + " " + IntLit(int64(id)) + ")"
}

func (x *Exec) elemRef(t types.Type, arr, idx Term) Term {
	return "(elem " + arr + " " + idx + ")"
}

func (x *Exec) refKind(name string) int {
	k := "kind:" + name
	if id, ok := x.smt.typeIDs[k]; ok {
		return id
	}
	id := len(x.smt.typeIDs) + 1
	x.smt.typeIDs[k] = id
	return id
}

// ---------- load / store ----------

func (x *Exec) load(st *State, p PtrV) Value {
	if p.Cell != nil {
		v, ok := st.cells[p.Cell]
		if !ok {
			v = x.smt.zeroValue(p.Cell.Typ)
			st.cells[p.Cell] = v
		}
		for _, i := range p.Path {
			sv, ok := v.(StructV)
			if !ok {
				x.note("cell path through non-struct")
				return x.smt.freshValue(p.Elem, "cellpath")
			}
			v = sv.F[i]
		}
		return v
	}
	if p.Leaf != nil {
		return x.loadLeaves(st, p.Leaf.prefix, p.Leaf.idx, p.Elem)
	}
	return x.loadAt(st, p.Ref, p.Elem, 0)
}

func (x *Exec) loadLeaves(st *State, prefix string, idx []Term, t types.Type) Value {
	sh := leafShape(t)
	ts := make([]Term, len(sh))
	for i, l := range sh {
		sort := leafArrSort(len(idx), l.sort)
		a := x.arr(st, prefix+l.suffix, sort)
		for _, ix := range idx {
			a = Select(a, ix)
		}
		ts[i] = a
	}
	v, _ := unflatten(t, ts)
	return v
}

func (x *Exec) storeLeaves(st *State, prefix string, idx []Term, t types.Type, v Value) {
	sh := leafShape(t)
	ts := flatten(v)
	if len(ts) != len(sh) {
		x.note("store shape mismatch")
		return
	}
	for i, l := range sh {
		sort := leafArrSort(len(idx), l.sort)
		name := prefix + l.suffix
		a := x.arr(st, name, sort)
		var nv Term
		if len(idx) == 1 {
			nv = Store(a, idx[0], ts[i])
		} else {
			nv = Store(a, idx[0], Store(Select(a, idx[0]), idx[1], ts[i]))
		}
		x.setArr(st, name, sort, nv)
	}
}

func (x *Exec) loadAt(st *State, ref Term, t types.Type, depth int) Value {
	if s := structOf(t); s != nil && depth < 6 {
		sv := StructV{Typ: t}
		for i := 0; i < s.NumFields(); i++ {
			ft := s.Field(i).Type()
			if structOf(ft) != nil {
				sv.F = append(sv.F, x.loadAt(st, x.fldRef(t, i, ref), ft, depth+1))
			} else {
				sv.F = append(sv.F, x.loadLeaves(st, fieldArrayName(t, s.Field(i)), []Term{ref}, ft))
			}
		}
		return sv
	}
	return x.loadLeaves(st, "P."+typeName(t), []Term{ref}, t)
}

func (x *Exec) storeAt(st *State, ref Term, t types.Type, v Value, depth int) {
	if s := structOf(t); s != nil && depth < 6 {
		sv, ok := v.(StructV)
		if !ok || len(sv.F) != s.NumFields() {
			x.note("struct store of non-struct value")
			x.havocAll(st, "bad store")
			return
		}
		for i := 0; i < s.NumFields(); i++ {
			ft := s.Field(i).Type()
			if structOf(ft) != nil {
				x.storeAt(st, x.fldRef(t, i, ref), ft, sv.F[i], depth+1)
			} else {
				x.storeLeaves(st, fieldArrayName(t, s.Field(i)), []Term{ref}, ft, sv.F[i])
			}
		}
		return
	}
	x.storeLeaves(st, "P."+typeName(t), []Term{ref}, t, v)
}

func (x *Exec) store(st *State, p PtrV, v Value) {
	v = x.retype(v, p.Elem)
	if p.Cell != nil {
		if len(p.Path) == 0 {
			st.cells[p.Cell] = v
			return
		}
		cur, ok := st.cells[p.Cell]
		if !ok {
			cur = x.smt.zeroValue(p.Cell.Typ)
		}
		st.cells[p.Cell] = setPath(cur, p.Path, v)
		return
	}
	if p.Leaf != nil {
		x.storeLeaves(st, p.Leaf.prefix, p.Leaf.idx, p.Elem, v)
		return
	}
	if sv, ok := v.(StructV); ok {
		// a whole-struct copy carries the object's model fields along
		dst := canonObj(p.Ref)
		if sv.Src != "" && sv.Src != dst && dst == p.Ref {
			if st.alias == nil {
				st.alias = map[Term]mfAlias{}
			}
			st.alias[dst] = mfAlias{src: sv.Src, snap: sv.SrcSnap}
		} else if st.alias != nil {
			delete(st.alias, dst)
		}
	}
	x.storeAt(st, p.Ref, p.Elem, v, 0)
}

// mfSnapshot records the current versions of the model-field arrays.
func (x *Exec) mfSnapshot(st *State) map[string]Term {
	snap := map[string]Term{}
	for name, t := range st.heap {
		if strings.HasPrefix(name, "MF.") {
			snap[name] = t
		}
	}
	return snap
}

// mfSource resolves the object whose model-field array `name` holds the value for ref: ref
// itself, or the object ref was copied from while that array has not changed since.
func (x *Exec) mfSource(st *State, name string, ref Term) Term {
	for n := 0; n < 4; n++ {
		a, ok := st.alias[ref]
		if !ok {
			return ref
		}
		was, had := a.snap[name]
		if !had {
			was = sym(name + "@0")
		}
		cur, has := st.heap[name]
		if !has {
			cur = sym(name + "@0")
		}
		if cur != was {
			return ref
		}
		ref = a.src
	}
	return ref
}

func setPath(cur Value, path []int, v Value) Value {
	if len(path) == 0 {
		return v
	}
	sv, ok := cur.(StructV)
	if !ok {
		return cur
	}
	nf := append([]Value(nil), sv.F...)
	nf[path[0]] = setPath(sv.F[path[0]], path[1:], v)
	return StructV{Typ: sv.Typ, F: nf}
}

// retype adjusts the static type recorded in a value (ChangeType, stores through typed pointers).
func (x *Exec) retype(v Value, t types.Type) Value {
	switch vv := v.(type) {
	case Scalar:
		if b, ok := t.Underlying().(*types.Basic); ok && basicSort(b) == vv.Sort {
			vv.Typ = t
			return vv
		}
	case StructV:
		if s := structOf(t); s != nil && s.NumFields() == len(vv.F) {
			vv.Typ = t
			return vv
		}
	case SliceV:
		if _, ok := t.Underlying().(*types.Slice); ok {
			vv.Typ = t
			return vv
		}
	case MapV:
		if _, ok := t.Underlying().(*types.Map); ok {
			vv.Typ = t
			return vv
		}
	case IfaceV:
		if _, ok := t.Underlying().(*types.Interface); ok {
			vv.Typ = t
			return vv
		}
	case PtrV:
		if pt, ok := t.Underlying().(*types.Pointer); ok {
			vv.Elem = pt.Elem()
			return vv
		}
	case FuncV:
		if _, ok := t.Underlying().(*types.Signature); ok {
			vv.Typ = t
			return vv
		}
	}
	return v
}

// ptrTerm is the first-class term of a pointer (for passing to calls / storing).
func (x *Exec) ptrTerm(p PtrV) Term {
	if p.Cell != nil {
		x.note("address of non-escaping local used as a value")
		return x.smt.constant(fmt.Sprintf("cellref!%d", p.Cell.id), SRef)
	}
	return p.Ref
}

// ---------- function setup ----------

func (x *Exec) newFrame(fn *ssa.Function, parent *Frame) *Frame {
	fr := &Frame{x: x, fn: fn, reg: map[ssa.Value]Value{}, cells: map[*ssa.Alloc]*Cell{}, params: map[string]Value{}, freevars: map[string]Value{},
		parent: parent, edgePC: map[[2]int]Term{}, loops: map[int]*loopInfo{}, iters: map[*ssa.Range]string{}, iterDom: map[*ssa.Range]Term{}}
	if parent != nil {
		fr.depth = parent.depth + 1
	}
	if fn.Pkg != nil {
		fr.pkg = fn.Pkg.Pkg
	}
	if p, ok := x.L.All[fr.pkg]; ok && fr.pkg != nil {
		fr.info = p.TypesInfo
	}
	fr.findLoops()
	return fr
}

func isBackEdge(from, to *ssa.BasicBlock) bool { return to.Dominates(from) }

func (fr *Frame) findLoops() {
	fn := fr.fn
	var headers []*ssa.BasicBlock
	for _, b := range fn.Blocks {
		for _, p := range b.Preds {
			if isBackEdge(p, b) {
				if _, ok := fr.loops[b.Index]; !ok {
					fr.loops[b.Index] = &loopInfo{header: b, blocks: map[int]bool{b.Index: true}, cells: map[*ssa.Alloc]bool{}}
					headers = append(headers, b)
				}
				// natural loop of back edge p->b
				li := fr.loops[b.Index]
				var stack []*ssa.BasicBlock
				if !li.blocks[p.Index] {
					li.blocks[p.Index] = true
					stack = append(stack, p)
				}
				for len(stack) > 0 {
					n := stack[len(stack)-1]
					stack = stack[:len(stack)-1]
					for _, q := range n.Preds {
						if !li.blocks[q.Index] {
							li.blocks[q.Index] = true
							stack = append(stack, q)
						}
					}
				}
			}
		}
	}
	sort.Slice(headers, func(i, j int) bool { return headers[i].Index < headers[j].Index })
	// AST loops in source order (excluding function literals)
	var astLoops []ast.Stmt
	if syn := fn.Syntax(); syn != nil {
		var body *ast.BlockStmt
		switch s := syn.(type) {
		case *ast.FuncDecl:
			body = s.Body
		case *ast.FuncLit:
			body = s.Body
		}
		if body != nil {
			ast.Inspect(body, func(n ast.Node) bool {
				switch n := n.(type) {
				case *ast.FuncLit:
					return false
				case *ast.ForStmt:
					astLoops = append(astLoops, n)
				case *ast.RangeStmt:
					astLoops = append(astLoops, n)
				}
				return true
			})
		}
	}
	for i, h := range headers {
		li := fr.loops[h.Index]
		li.ordinal = i
		if len(astLoops) == len(headers) {
			li.astLoop = astLoops[i]
		}
		for bi := range li.blocks {
			for _, ins := range fn.Blocks[bi].Instrs {
				switch ins := ins.(type) {
				case *ssa.Store:
					if a := rootAlloc(ins.Addr); a != nil && !a.Heap {
						li.cells[a] = true
					} else {
						li.heapW = true
					}
				case *ssa.MapUpdate:
					li.heapW = true
				case ssa.CallInstruction:
					li.anyCall = true
					if b, ok := ins.Common().Value.(*ssa.Builtin); ok {
						switch b.Name() {
						case "len", "cap", "append":
							continue
						}
					}
					li.heapW = true
				case *ssa.Alloc:
					if !ins.Heap {
						// declared inside the loop: re-initialised on every iteration, no need to havoc
					}
				}
			}
		}
		// range-over-slice pattern
		for _, ins := range h.Instrs {
			if n, ok := ins.(*ssa.Next); ok {
				if r, ok := n.Iter.(*ssa.Range); ok {
					li.iter = r
				}
			}
			if bo, ok := ins.(*ssa.BinOp); ok && bo.Op == token.LSS && h.Comment == "rangeindex.loop" {
				li.lenVal = bo.Y
				if c, ok := bo.Y.(*ssa.Call); ok {
					if b, ok := c.Call.Value.(*ssa.Builtin); ok && b.Name() == "len" {
						li.rangeX = c.Call.Args[0]
					}
				}
				if add, ok := bo.X.(*ssa.BinOp); ok {
					if ld, ok := add.X.(*ssa.UnOp); ok {
						if a, ok := ld.X.(*ssa.Alloc); ok {
							li.rangeIdx = a
						}
					}
				}
			}
		}
	}
}

func rootAlloc(v ssa.Value) *ssa.Alloc {
	for {
		switch a := v.(type) {
		case *ssa.Alloc:
			return a
		case *ssa.FieldAddr:
			v = a.X
		case *ssa.IndexAddr:
			if _, ok := a.X.Type().Underlying().(*types.Pointer); ok {
				v = a.X
			} else {
				return nil
			}
		default:
			return nil
		}
	}
}

// baselineLoopOrdinal: for "function|selector", the ordinal the loop clause bound to when the
// baseline was recorded; loopOrdinalSeen: what it binds to in this run.
var (
	baselineLoopOrdinal = map[string]int{}
	loopOrdinalSeen     = map[string]int{}
)

// bindLoopSpecs attaches contract loop clauses to loop headers.
func (fr *Frame) bindLoopSpecs() []string {
	var errs []string
	if fr.spec == nil {
		return nil
	}
	fset := fr.x.L.Prog.Fset
	for _, ls := range fr.spec.Loops {
		sel := strings.TrimSpace(ls.Selector)
		var found *loopInfo
		var cands []*loopInfo
		for _, li := range fr.loops {
			cands = append(cands, li)
		}
		sort.Slice(cands, func(i, j int) bool { return cands[i].ordinal < cands[j].ordinal })
		want := 0
		if i := strings.LastIndex(sel, " #"); i >= 0 {
			fmt.Sscanf(sel[i+2:], "%d", &want)
			sel = strings.TrimSpace(sel[:i])
		}
		switch {
		case strings.HasPrefix(sel, "#"):
			var n int
			fmt.Sscanf(sel[1:], "%d", &n)
			for _, li := range cands {
				if li.ordinal == n {
					found = li
				}
			}
		default:
			kind, text, _ := strings.Cut(sel, " ")
			text = strings.Join(strings.Fields(text), "")
			k := 0
			for _, li := range cands {
				var got string
				switch l := li.astLoop.(type) {
				case *ast.RangeStmt:
					if kind != "range" {
						continue
					}
					got = nodeText(fset, l.X)
				case *ast.ForStmt:
					if kind != "for" {
						continue
					}
					if l.Cond != nil {
						got = nodeText(fset, l.Cond)
					}
				default:
					continue
				}
				if strings.Join(strings.Fields(got), "") == text {
					if k == want {
						found = li
						break
					}
					k++
				}
			}
		}
		if found == nil {
			// The loop's range expression or condition was reworded (a renamed local, a hoisted
			// expression): fall back to the position the clause had among the function's loops
			// when the baseline was recorded, provided no other clause claims that loop.
			// (only when the function still has as many loops as it had then, i.e. the edit
			// reworded a loop rather than adding, removing or moving one, and only once the
			// clause was not found in an inlined helper either - see runTop)
			if ord, ok := baselineLoopOrdinal[fr.fn.String()+"|"+ls.Selector]; ok && fr.allowOrdinalFallback && baselineLoopOrdinal[fr.fn.String()+"|#loops"] == len(cands) {
				for _, li := range cands {
					if li.ordinal == ord && li.spec == nil {
						found = li
						fr.x.note(fmt.Sprintf("loop clause %q bound by its recorded position #%d (its text no longer occurs)", ls.Selector, ord))
					}
				}
			}
		}
		if found == nil {
			errs = append(errs, fmt.Sprintf("loop %q not found", ls.Selector))
			continue
		}
		found.spec = ls
		ls.matched = true
		loopOrdinalSeen[fr.fn.String()+"|"+ls.Selector] = found.ordinal
		loopOrdinalSeen[fr.fn.String()+"|#loops"] = len(fr.loops)
	}
	return errs
}

func nodeText(fset *token.FileSet, n ast.Node) string {
	var b strings.Builder
	writeNode(&b, fset, n)
	return b.String()
}
