package main

import (
	"fmt"
	"go/types"
	"os"
	"sort"
	"strings"

	"golang.org/x/tools/go/packages"
	"golang.org/x/tools/go/ssa"
	"golang.org/x/tools/go/ssa/ssautil"
)

// Loaded is the typed AST + SSA of the root packages of one check run.
type Loaded struct {
	Prog   *ssa.Program
	Pkgs   []*packages.Package
	SSA    []*ssa.Package
	ByPath map[string]*ssa.Package
	All    map[*types.Package]*packages.Package
}

func repoDir() string {
	if d := os.Getenv("VERIF_REPO"); d != "" {
		return d
	}
	return "/repo"
}

func loadPackages(patterns []string) (*Loaded, error) {
	cfg := &packages.Config{
		Mode: packages.NeedName | packages.NeedFiles | packages.NeedCompiledGoFiles | packages.NeedImports |
			packages.NeedDeps | packages.NeedTypes | packages.NeedTypesInfo | packages.NeedSyntax | packages.NeedTypesSizes | packages.NeedModule,
		Dir:        repoDir(),
		BuildFlags: []string{"-tags=verif"},
		Env:        append(os.Environ(), "GOFLAGS=-mod=mod", "GOPROXY=off", "GOSUMDB=off", "GOTOOLCHAIN=local"),
	}
	pkgs, err := packages.Load(cfg, patterns...)
	if err != nil {
		return nil, err
	}
	var errs []string
	for _, p := range pkgs {
		for _, e := range p.Errors {
			errs = append(errs, e.Error())
		}
	}
	if len(errs) > 0 {
		return nil, fmt.Errorf("package errors:\n%s", strings.Join(errs, "\n"))
	}
	// SSA packages are created for every dependency too, but bodies are built only for the root
	// packages here; bodies of crossplane / crossplane-runtime helpers are built on demand when
	// a call to them is inlined.
	prog, _ := ssautil.AllPackages(pkgs, ssa.NaiveForm|ssa.GlobalDebug|ssa.InstantiateGenerics)
	l := &Loaded{Prog: prog, Pkgs: pkgs, ByPath: map[string]*ssa.Package{}, All: map[*types.Package]*packages.Package{}}
	for _, p := range pkgs {
		sp := prog.Package(p.Types)
		if sp != nil {
			sp.Build()
			l.SSA = append(l.SSA, sp)
			l.ByPath[sp.Pkg.Path()] = sp
		}
	}
	packages.Visit(pkgs, nil, func(p *packages.Package) {
		if p.Types != nil {
			l.All[p.Types] = p
		}
	})
	return l, nil
}

// funcKey is the stable name contracts use for a function:
//
//	pkgname.Func, (pkgname.T).Method, (*pkgname.T).Method, Outer$1 for closures.
func funcKey(f *ssa.Function) string {
	if f == nil {
		return "<nil>"
	}
	if f.Parent() != nil {
		// anonymous function: Parent$N
		name := f.Name() // already like Reconcile$1
		p := f.Parent()
		for p.Parent() != nil {
			p = p.Parent()
		}
		base := funcKey(p)
		idx := strings.Index(name, "$")
		if idx >= 0 {
			return base + name[idx:]
		}
		return base + "$" + name
	}
	pkgname := ""
	if f.Pkg != nil {
		pkgname = f.Pkg.Pkg.Name()
	} else if f.Object() != nil && f.Object().Pkg() != nil {
		pkgname = f.Object().Pkg().Name()
	}
	name := f.Name()
	if i := strings.Index(name, "["); i > 0 {
		name = name[:i] // generic instantiation
	}
	if recv := f.Signature.Recv(); recv != nil {
		return "(" + typeKey(recv.Type()) + ")." + name
	}
	return pkgname + "." + name
}

// typeKey renders a type as pkgname.Name (with leading * for pointers).
func typeKey(t types.Type) string {
	switch t := t.(type) {
	case *types.Pointer:
		return "*" + typeKey(t.Elem())
	case *types.Named:
		o := t.Obj()
		if o.Pkg() != nil {
			return o.Pkg().Name() + "." + o.Name()
		}
		return o.Name()
	case *types.Alias:
		return typeKey(types.Unalias(t))
	}
	return types.TypeString(t, func(p *types.Package) string { return p.Name() })
}

// calleeKey names the callee of a call the way site patterns do.
func calleeKey(c *ssa.CallCommon) (key string, full string) {
	if c.IsInvoke() {
		recv := c.Method.Type().(*types.Signature).Recv()
		rt := c.Value.Type()
		if recv != nil {
			rt = recv.Type()
		}
		k := "(" + typeKey(rt) + ")." + c.Method.Name()
		return k, "(" + types.TypeString(rt, nil) + ")." + c.Method.Name()
	}
	if f := c.StaticCallee(); f != nil {
		full := f.String()
		return funcKey(f), full
	}
	if b, ok := c.Value.(*ssa.Builtin); ok {
		return "builtin." + b.Name(), "builtin." + b.Name()
	}
	// a call through a function-typed struct field: field:<pkg.Type>.<field>
	if ld, ok := c.Value.(*ssa.UnOp); ok {
		if fa, ok := ld.X.(*ssa.FieldAddr); ok {
			if pt, ok := fa.X.Type().Underlying().(*types.Pointer); ok {
				if st, ok := pt.Elem().Underlying().(*types.Struct); ok {
					k := "field:" + typeKey(pt.Elem()) + "." + st.Field(fa.Field).Name()
					return k, "field:" + types.TypeString(pt.Elem(), nil) + "." + st.Field(fa.Field).Name()
				}
			}
		}
	}
	if f, ok := c.Value.(*ssa.Field); ok {
		if st, ok := f.X.Type().Underlying().(*types.Struct); ok {
			k := "field:" + typeKey(f.X.Type()) + "." + st.Field(f.Field).Name()
			return k, k
		}
	}
	if n, ok := c.Value.Type().(*types.Named); ok {
		return "functype:" + typeKey(n), "functype:" + types.TypeString(n, nil)
	}
	return "<dynamic>", "<dynamic>"
}

func (l *Loaded) allFunctions() map[string]*ssa.Function {
	out := map[string]*ssa.Function{}
	for _, sp := range l.SSA {
		if sp == nil {
			continue
		}
		for _, m := range sp.Members {
			switch m := m.(type) {
			case *ssa.Function:
				addFn(out, m)
			case *ssa.Type:
				for _, t := range []types.Type{m.Type(), types.NewPointer(m.Type())} {
					ms := l.Prog.MethodSets.MethodSet(t)
					for i := 0; i < ms.Len(); i++ {
						if f := l.Prog.MethodValue(ms.At(i)); f != nil && f.Pkg == sp && f.Synthetic == "" {
							addFn(out, f)
						}
					}
				}
			}
		}
	}
	return out
}

func addFn(out map[string]*ssa.Function, f *ssa.Function) {
	if f.Blocks == nil {
		return
	}
	out[funcKey(f)] = f
	for _, a := range f.AnonFuncs {
		addFn(out, a)
	}
}

func cmdDump(args []string) int {
	if len(args) < 1 {
		fmt.Fprintln(os.Stderr, "usage: gowp dump <pkgpattern> [funckey-substring]")
		return 2
	}
	l, err := loadPackages(args[:1])
	if err != nil {
		fmt.Fprintln(os.Stderr, err)
		return 1
	}
	fns := l.allFunctions()
	var keys []string
	for k := range fns {
		keys = append(keys, k)
	}
	sort.Strings(keys)
	for _, k := range keys {
		if len(args) > 1 {
			if !strings.Contains(k, args[1]) {
				continue
			}
			fmt.Printf("=== %s\n", k)
			fns[k].WriteTo(os.Stdout)
		} else {
			fmt.Println(k)
		}
	}
	return 0
}
