package main

import (
	"fmt"
	"go/ast"
	"go/constant"
	"go/printer"
	"go/token"
	"go/types"
	"sort"
	"strings"

	"golang.org/x/tools/go/ssa"
)

func writeNode(b *strings.Builder, fset *token.FileSet, n ast.Node) {
	printer.Fprint(b, fset, n)
}

func (x *Exec) pos(p token.Pos) string {
	if !p.IsValid() {
		return ""
	}
	ps := x.L.Prog.Fset.Position(p)
	return fmt.Sprintf("%s:%d", strings.TrimPrefix(ps.Filename, repoDir()+"/"), ps.Line)
}

// rpo returns blocks in reverse post-order ignoring back edges. Successors that leave a loop
// are visited first, so that in the resulting order every block of a loop body precedes the code
// after the loop: obligations inside a loop then carry no facts about what follows it.
func rpo(fn *ssa.Function) []*ssa.BasicBlock {
	// natural loops: header index -> body
	loops := map[int]map[int]bool{}
	for _, b := range fn.Blocks {
		for _, p := range b.Preds {
			if !isBackEdge(p, b) {
				continue
			}
			body := loops[b.Index]
			if body == nil {
				body = map[int]bool{b.Index: true}
				loops[b.Index] = body
			}
			var stack []*ssa.BasicBlock
			if !body[p.Index] {
				body[p.Index] = true
				stack = append(stack, p)
			}
			for len(stack) > 0 {
				n := stack[len(stack)-1]
				stack = stack[:len(stack)-1]
				for _, q := range n.Preds {
					if !body[q.Index] {
						body[q.Index] = true
						stack = append(stack, q)
					}
				}
			}
		}
	}
	shared := func(b, s *ssa.BasicBlock) int {
		n := 0
		for _, body := range loops {
			if body[b.Index] && body[s.Index] {
				n++
			}
		}
		return n
	}
	// reach[b]: number of blocks reachable from b without back edges. Of two branches the one
	// that ends sooner (an early return on an error path, say) is placed first, so that its
	// obligations do not carry the facts of everything the longer branch goes through.
	reach := map[int]int{}
	var count func(b *ssa.BasicBlock, seen map[int]bool)
	count = func(b *ssa.BasicBlock, seen map[int]bool) {
		if seen[b.Index] {
			return
		}
		seen[b.Index] = true
		for _, s := range b.Succs {
			if !isBackEdge(b, s) {
				count(s, seen)
			}
		}
	}
	for _, b := range fn.Blocks {
		sn := map[int]bool{}
		count(b, sn)
		reach[b.Index] = len(sn)
	}
	seen := map[int]bool{}
	var post []*ssa.BasicBlock
	var dfs func(b *ssa.BasicBlock)
	dfs = func(b *ssa.BasicBlock) {
		seen[b.Index] = true
		succs := append([]*ssa.BasicBlock(nil), b.Succs...)
		sort.SliceStable(succs, func(i, j int) bool {
			si, sj := shared(b, succs[i]), shared(b, succs[j])
			if si != sj {
				return si < sj
			}
			return reach[succs[i].Index] > reach[succs[j].Index]
		})
		for _, s := range succs {
			if !seen[s.Index] && !isBackEdge(b, s) {
				dfs(s)
			}
		}
		post = append(post, b)
	}
	if len(fn.Blocks) > 0 {
		dfs(fn.Blocks[0])
	}
	for i, j := 0, len(post)-1; i < j; i, j = i+1, j-1 {
		post[i], post[j] = post[j], post[i]
	}
	return post
}

func (x *Exec) mergeStates(sts []*State) *State {
	if len(sts) == 1 {
		return sts[0].clone()
	}
	m := x.smt
	out := sts[0].clone()
	for i := len(sts) - 2; i >= 0; i-- {
		_ = i
	}
	low := sts[len(sts)-1].allocLow
	for i := len(sts) - 2; i >= 0; i-- {
		if sts[i].allocLow != low {
			low = m.def("low", SInt, Ite(sts[i].pc, sts[i].allocLow, low))
		}
	}
	out.allocLow = low
	var pcs []Term
	for _, s := range sts {
		pcs = append(pcs, s.pc)
	}
	out.pc = m.def("pc", SBool, Or(pcs...))
	// copies of whole objects: kept only where every incoming path made the same copy
	for k, a := range out.alias {
		for _, s := range sts[1:] {
			b, ok := s.alias[k]
			if !ok || b.src != a.src || !sameSnap(a.snap, b.snap) {
				delete(out.alias, k)
				break
			}
		}
	}
	// cells
	cellKeys := map[*Cell]bool{}
	for _, s := range sts {
		for c := range s.cells {
			cellKeys[c] = true
		}
	}
	for c := range cellKeys {
		var v Value
		for i := len(sts) - 1; i >= 0; i-- {
			sv, ok := sts[i].cells[c]
			if !ok {
				continue
			}
			if v == nil {
				v = sv
			} else if !sameValue(v, sv) {
				v = m.iteValue(sts[i].pc, sv, v)
			}
		}
		out.cells[c] = v
	}
	heapKeys := map[string]bool{}
	for _, s := range sts {
		for k := range s.heap {
			heapKeys[k] = true
		}
	}
	for _, k := range sortedKeys(heapKeys) {
		sort := x.arrays[k]
		var v Term
		for i := len(sts) - 1; i >= 0; i-- {
			sv := x.arr(sts[i], k, sort)
			if v == "" {
				v = sv
			} else if v != sv {
				v = m.def(k, sort, Ite(sts[i].pc, sv, v))
			}
		}
		out.heap[k] = v
	}
	mergeMap := func(get func(*State) map[string]Value) map[string]Value {
		keys := map[string]bool{}
		for _, s := range sts {
			for k := range get(s) {
				keys[k] = true
			}
		}
		res := map[string]Value{}
		for k := range keys {
			var v Value
			for i := len(sts) - 1; i >= 0; i-- {
				sv, ok := get(sts[i])[k]
				if !ok {
					continue
				}
				if v == nil {
					v = sv
				} else if !sameGhost(v, sv) {
					v = x.iteGhost(sts[i].pc, sv, v)
				}
			}
			res[k] = v
		}
		return res
	}
	out.ghost = mergeMap(func(s *State) map[string]Value { return s.ghost })
	out.binds = mergeMap(func(s *State) map[string]Value { return s.binds })
	// defers: keep the longest common (static) stack
	out.defers = append([]deferred(nil), sts[0].defers...)
	for _, s := range sts[1:] {
		if len(s.defers) > len(out.defers) {
			out.defers = append([]deferred(nil), s.defers...)
		}
	}
	return out
}

func sameGhost(a, b Value) bool {
	aa, ok1 := a.(ArrayV)
	bb, ok2 := b.(ArrayV)
	if ok1 || ok2 {
		return ok1 && ok2 && aa.T == bb.T
	}
	return sameValue(a, b)
}

func sameSnap(a, b map[string]Term) bool {
	if len(a) != len(b) {
		return false
	}
	for k, v := range a {
		if b[k] != v {
			return false
		}
	}
	return true
}

func (x *Exec) iteGhost(c Term, a, b Value) Value {
	aa, ok1 := a.(ArrayV)
	bb, ok2 := b.(ArrayV)
	if ok1 && ok2 {
		return ArrayV{T: x.smt.def("ite", aa.Sort, Ite(c, aa.T, bb.T)), Sort: aa.Sort, Key: aa.Key}
	}
	if ok1 || ok2 {
		return a
	}
	if len(flatten(a)) != len(flatten(b)) {
		return a
	}
	return x.smt.iteValue(c, a, b)
}

// runBody symbolically executes fr.fn from state st.
func (x *Exec) runBody(fr *Frame, st *State) {
	fn := fr.fn
	order := rpo(fn)
	edgeState := map[[2]int]*State{}
	for _, b := range order {
		var in *State
		if b.Index == 0 {
			in = st
		} else {
			var ins []*State
			for _, p := range b.Preds {
				if isBackEdge(p, b) {
					continue
				}
				if es, ok := edgeState[[2]int{p.Index, b.Index}]; ok {
					ins = append(ins, es)
				}
			}
			if len(ins) == 0 {
				continue
			}
			in = x.mergeStates(ins)
		}
		if in.pc == "false" {
			continue
		}
		if li, ok := fr.loops[b.Index]; ok {
			x.enterLoop(fr, li, in)
		}
		cur := in
		alive := true
		for _, ins := range b.Instrs {
			if !x.step(fr, cur, ins, edgeState) {
				alive = false
				break
			}
		}
		_ = alive
	}
}

// enterLoop cuts the loop at its header: check invariants on entry, havoc, assume.
func (x *Exec) enterLoop(fr *Frame, li *loopInfo, in *State) {
	invs := x.loopInvariants(fr, li)
	for _, c := range invs {
		x.obligeClause(fr, in, c, "inv-init", loopAnchor(li), func(env *Env) { env.loop = li }, loopPos(li))
		x.obls[len(x.obls)-1].Watch = x.loopWatches(fr, in, li)
	}
	// havoc
	for a := range li.cells {
		cell := fr.cells[a]
		if cell == nil {
			continue // declared inside the loop
		}
		if _, ok := in.cells[cell]; ok {
			in.cells[cell] = x.smt.freshValue(cell.Typ, "lh."+cell.Name)
		}
	}
	// heap arrays, ghosts and bindings: havoc exactly those the body was seen to modify
	// (fixpoint over passes, see edge()).
	li.key = fmt.Sprintf("%s#%d", fr.fn.String(), li.header.Index)
	mods := x.loopMods[li.key]
	for _, name := range sortedKeys(in.heap) {
		if mods["h:"+name] {
			in.heap[name] = x.smt.fresh(name+"@l", x.arrays[name])
		}
	}
	for _, k := range sortedKeys(in.ghost) {
		if mods["g:"+k] {
			in.ghost[k] = x.smt.freshLike(in.ghost[k], "g."+k)
		}
	}
	for _, k := range sortedKeys(in.binds) {
		if mods["b:"+k] {
			in.binds[k] = x.smt.freshLike(in.binds[k], "b."+k)
		}
	}
	if mods["low"] {
		nl := x.smt.fresh("low@l", SInt)
		x.smt.assume("(<= " + nl + " " + in.allocLow + ")")
		in.allocLow = nl
	}
	// whatever the loop's variables refer to at the header exists at that moment: later
	// allocations are distinct from it
	for a := range li.cells {
		if cell := fr.cells[a]; cell != nil {
			if v, ok := in.cells[cell]; ok {
				x.known(in, v)
			}
		}
	}
	if li.iter != nil {
		if g, ok := fr.iters[li.iter]; ok {
			if v, ok := in.ghost[g]; ok && !mods["g:"+g] {
				in.ghost[g] = x.smt.freshLike(v, g)
			}
			if v, ok := in.ghost[g+"#n"]; ok && !mods["g:"+g+"#n"] {
				in.ghost[g+"#n"] = x.smt.freshLike(v, g+"#n")
			}
		}
	}
	in.pc = x.smt.def("pc", SBool, in.pc)
	li.head = in.clone()
	for _, c := range invs {
		env := x.newEnv(fr, in)
		env.loop = li
		env.pos = loopPos(li)
		env.assumeMode = true
		t, err := env.evalBool(c.E)
		if err != nil {
			continue // reported by inv-init already
		}
		x.smt.assume(Implies(in.pc, t))
	}
}

// loopWatches evaluates the witness clauses of a loop contract in state st.
func (x *Exec) loopWatches(fr *Frame, st *State, li *loopInfo) []watch {
	if li.spec == nil || len(li.spec.Witness) == 0 {
		return nil
	}
	var out []watch
	for _, w := range li.spec.Witness {
		env := x.newEnv(fr, st)
		env.loop = li
		env.pos = loopPos(li)
		n := w.Bound
		if w.Var == "" {
			n = 1
		}
		for k := 0; k < n; k++ {
			name := w.Name
			if w.Var != "" {
				env.vars[w.Var] = intV(IntLit(int64(k)))
				name = fmt.Sprintf("%s[%d]", w.Name, k)
			}
			if v, err := env.eval(w.E); err == nil {
				if ls := flatten(v); len(ls) > 0 {
					out = append(out, watch{Name: name, Term: ls[0]})
				}
			}
		}
	}
	return out
}

func loopAnchor(li *loopInfo) string {
	if li.spec != nil {
		return "loop " + li.spec.Selector
	}
	return fmt.Sprintf("loop #%d", li.ordinal)
}

// loopInvariants are the contract's clauses plus the automatic range-index bound.
func (x *Exec) loopInvariants(fr *Frame, li *loopInfo) []*Clause {
	var out []*Clause
	if li.rangeIdx != nil && li.lenVal != nil {
		out = append(out, &Clause{Label: "auto-range-bound", E: EBinary{"&&", EBinary{"<=", EInt{0}, EIdent{"done"}}, EBinary{"<=", EIdent{"done"}, EIdent{"$$len"}}}, Src: "0 <= done <= len", Props: nil})
	}
	if li.spec != nil {
		out = append(out, li.spec.Invariants...)
	}
	return out
}

func (x *Exec) edge(fr *Frame, st *State, from, to *ssa.BasicBlock, cond Term, edgeState map[[2]int]*State) {
	pc := x.smt.def("pc", SBool, And(st.pc, cond))
	fr.edgePC[[2]int{from.Index, to.Index}] = pc
	if isBackEdge(from, to) {
		li := fr.loops[to.Index]
		if li == nil {
			return
		}
		es := st.clone()
		es.pc = pc
		x.recordLoopMods(li, es)
		for _, c := range x.loopInvariants(fr, li) {
			x.obligeClause(fr, es, c, "inv-step", loopAnchor(li), func(env *Env) { env.loop = li }, loopPos(li))
			x.obls[len(x.obls)-1].Watch = x.loopWatches(fr, es, li)
		}
		return
	}
	es := st.clone()
	es.pc = pc
	edgeState[[2]int{from.Index, to.Index}] = es
}

// recordLoopMods compares the state at a back edge with the state assumed at the header and
// records every array / ghost / binding that differs; such names are havoc'd at the header in
// the next pass. At the fixpoint, everything not recorded is provably unchanged by the body.
func (x *Exec) recordLoopMods(li *loopInfo, es *State) {
	if li.head == nil {
		return
	}
	mods := x.loopMods[li.key]
	if mods == nil {
		mods = map[string]bool{}
		x.loopMods[li.key] = mods
	}
	add := func(k string) {
		if !mods[k] {
			mods[k] = true
			x.grew = true
		}
	}
	if es.allocLow != li.head.allocLow {
		add("low")
	}
	for name, t := range es.heap {
		ht, ok := li.head.heap[name]
		if !ok && t == sym(name+"@0") {
			// first touched inside the loop and still its initial value: read, not written
			continue
		}
		if !ok || ht != t {
			add("h:" + name)
		}
	}
	for k, v := range es.ghost {
		if hv, ok := li.head.ghost[k]; !ok || !sameGhost(hv, v) {
			add("g:" + k)
		}
	}
	for k, v := range es.binds {
		if hv, ok := li.head.binds[k]; !ok || !sameGhost(hv, v) {
			add("b:" + k)
		}
	}
}

// step executes one instruction; returns false when the path ends.
func (x *Exec) step(fr *Frame, st *State, ins ssa.Instruction, edgeState map[[2]int]*State) bool {
	m := x.smt
	if p := ins.Pos(); p.IsValid() {
		fr.curPos = p
	}
	x.curFrame = fr
	switch ins := ins.(type) {
	case *ssa.DebugRef:
		return true
	case *ssa.Alloc:
		elem := ins.Type().(*types.Pointer).Elem()
		if !ins.Heap {
			cell := fr.cells[ins]
			if cell == nil {
				x.nCell++
				cell = &Cell{Name: ins.Comment, Typ: elem, id: x.nCell}
				fr.cells[ins] = cell
			}
			st.cells[cell] = m.zeroValue(elem)
			fr.reg[ins] = PtrV{Cell: cell, Elem: elem, Ref: NilRef}
			return true
		}
		ref := x.newRefIn(fr, st, ins.Comment)
		p := PtrV{Ref: ref, Elem: elem}
		m.wellFormed(p)
		if at, isArr := elem.Underlying().(*types.Array); !isArr {
			x.store(st, p, m.zeroValue(elem))
		} else if at.Len() <= 8 {
			// the backing array of a short composite literal: every element starts out zero
			x.zeroArray(st, at.Elem(), ref, int(at.Len()))
		}
		fr.reg[ins] = p
	case *ssa.Store:
		addr := x.val(fr, st, ins.Addr)
		p, ok := addr.(PtrV)
		if !ok {
			x.note("store through non-pointer value")
			x.havocAll(st, "store")
			return true
		}
		v := x.val(fr, st, ins.Val)
		if pv, ok := v.(PtrV); ok && (pv.Leaf != nil) {
			x.note("interior scalar pointer stored")
		}
		x.safeNonNil(fr, st, p, ins.Pos(), "store")
		x.frameWrite(fr, st, p, ins.Pos())
		x.store(st, p, v)
	case *ssa.UnOp:
		fr.reg[ins] = x.unop(fr, st, ins)
	case *ssa.BinOp:
		fr.reg[ins] = x.binop(fr, st, ins.Op, x.val(fr, st, ins.X), x.val(fr, st, ins.Y), ins.Type(), ins.Pos())
	case *ssa.FieldAddr:
		base := x.val(fr, st, ins.X)
		p, ok := base.(PtrV)
		if !ok {
			fr.reg[ins] = m.freshValue(ins.Type(), "fa")
			x.note("FieldAddr on non-pointer")
			return true
		}
		x.safeNonNil(fr, st, p, ins.Pos(), "field")
		fr.reg[ins] = x.fieldAddr(p, ins.Field)
	case *ssa.Field:
		sv, ok := x.val(fr, st, ins.X).(StructV)
		if !ok {
			fr.reg[ins] = m.freshValue(ins.Type(), "fld")
			x.note("Field of non-struct value")
			return true
		}
		fr.reg[ins] = sv.F[ins.Field]
	case *ssa.IndexAddr:
		fr.reg[ins] = x.indexAddr(fr, st, ins)
	case *ssa.Index:
		fr.reg[ins] = m.freshValue(ins.Type(), "idx")
		x.note("Index on array/string value abstracted")
	case *ssa.Lookup:
		x.pseudoSite(fr, st, "builtin.maplookup", []Value{x.val(fr, st, ins.X), x.val(fr, st, ins.Index)}, ins.Pos())
		fr.reg[ins] = x.lookup(fr, st, ins)
	case *ssa.MapUpdate:
		mv, ok := x.val(fr, st, ins.Map).(MapV)
		if !ok {
			x.note("MapUpdate on non-map")
			x.havocAll(st, "mapupdate")
			return true
		}
		if x.sweep {
			x.safe(fr, st, Not(Eq(mv.Ref, NilRef)), "nilmap", ins.Pos(), "write to nil map")
		}
		x.assumeAt(st, Not(Eq(mv.Ref, NilRef))) // a write to a nil map panics (an obligation in sweep mode)
		x.pseudoSite(fr, st, "builtin.mapupdate", []Value{mv, x.val(fr, st, ins.Key), x.val(fr, st, ins.Value)}, ins.Pos())
		x.frameRef(fr, st, mv.Ref, "map update", ins.Pos())
		x.mapStore(st, mv, x.val(fr, st, ins.Key), x.val(fr, st, ins.Value))
	case *ssa.MakeMap:
		ref := x.newRefIn(fr, st, "map")
		mv := MapV{Ref: ref, Typ: ins.Type()}
		x.mapInit(st, mv)
		fr.reg[ins] = mv
	case *ssa.MakeSlice:
		fr.reg[ins] = x.makeSlice(fr, st, ins)
	case *ssa.Slice:
		fr.reg[ins] = x.sliceOp(fr, st, ins)
	case *ssa.MakeInterface:
		fr.reg[ins] = x.makeIface(st, x.val(fr, st, ins.X), ins.X.Type(), ins.Type())
	case *ssa.ChangeInterface:
		v := x.val(fr, st, ins.X)
		fr.reg[ins] = x.retype(v, ins.Type())
	case *ssa.ChangeType:
		fr.reg[ins] = x.retype(x.val(fr, st, ins.X), ins.Type())
	case *ssa.Convert:
		fr.reg[ins] = x.convert(fr, st, ins)
	case *ssa.MultiConvert:
		fr.reg[ins] = m.freshValue(ins.Type(), "mconv")
		x.note("MultiConvert abstracted")
	case *ssa.SliceToArrayPointer:
		fr.reg[ins] = m.freshValue(ins.Type(), "s2a")
		x.note("SliceToArrayPointer abstracted")
	case *ssa.TypeAssert:
		fr.reg[ins] = x.typeAssert(fr, st, ins)
	case *ssa.Extract:
		tv, ok := x.val(fr, st, ins.Tuple).(TupleV)
		if !ok || ins.Index >= len(tv.E) {
			fr.reg[ins] = m.freshValue(ins.Type(), "ext")
			x.note("Extract from non-tuple")
			return true
		}
		fr.reg[ins] = x.retype(tv.E[ins.Index], ins.Type())
	case *ssa.Phi:
		var v Value
		for i := len(ins.Edges) - 1; i >= 0; i-- {
			p := ins.Block().Preds[i]
			pc, ok := fr.edgePC[[2]int{p.Index, ins.Block().Index}]
			if !ok {
				continue
			}
			ev := x.val(fr, st, ins.Edges[i])
			if v == nil {
				v = ev
			} else {
				v = m.iteValue(pc, ev, v)
			}
		}
		if v == nil {
			v = m.freshValue(ins.Type(), "phi")
		}
		fr.reg[ins] = v
	case *ssa.Range:
		x.pseudoSite(fr, st, "builtin.maprange", []Value{x.val(fr, st, ins.X)}, ins.Pos())
		fr.reg[ins] = x.rangeInit(fr, st, ins)
	case *ssa.Next:
		fr.reg[ins] = x.next(fr, st, ins)
	case *ssa.MakeClosure:
		fv := FuncV{Typ: ins.Type(), Fn: ins.Fn.(*ssa.Function)}
		var ts []Term
		for _, b := range ins.Bindings {
			bv := x.val(fr, st, b)
			fv.Env = append(fv.Env, bv)
			if pv, ok := bv.(PtrV); ok {
				ts = append(ts, x.ptrTerm(pv))
			} else {
				ts = append(ts, flatten(bv)...)
			}
		}
		fv.T = m.fresh("closure", SRef)
		m.assume(Not(Eq(fv.T, NilRef)))
		fr.reg[ins] = fv
	case *ssa.MakeChan:
		fr.reg[ins] = OpaqueV{T: x.newRef("chan"), Typ: ins.Type()}
	case *ssa.Select:
		fr.reg[ins] = m.freshValue(ins.Type(), "select")
		x.note("select abstracted (concurrency)")
	case *ssa.Send:
		x.note("channel send abstracted (concurrency)")
	case *ssa.Go:
		x.note("go statement: goroutine body not composed (concurrency abstracted)")
		x.goEffect(fr, st, ins)
	case *ssa.Defer:
		var args []Value
		if ins.Call.IsInvoke() {
			args = append(args, x.val(fr, st, ins.Call.Value))
		}
		for _, a := range ins.Call.Args {
			args = append(args, x.val(fr, st, a))
		}
		cc := ins.Call
		st.defers = append(st.defers, deferred{call: &cc, args: args, pos: ins.Pos()})
	case *ssa.RunDefers:
		for i := len(st.defers) - 1; i >= 0; i-- {
			d := st.defers[i]
			x.doCall(fr, st, d.call, d.args, d.pos, nil)
		}
		st.defers = nil
	case *ssa.Call:
		var args []Value
		if ins.Call.IsInvoke() {
			args = append(args, x.val(fr, st, ins.Call.Value))
		}
		for _, a := range ins.Call.Args {
			args = append(args, x.val(fr, st, a))
		}
		res := x.doCall(fr, st, &ins.Call, args, ins.Pos(), ins)
		if res == nil {
			res = m.freshValue(ins.Type(), "call")
		}
		fr.reg[ins] = res
		if st.pc == "false" {
			return false
		}
	case *ssa.Panic:
		return false
	case *ssa.Return:
		var v Value
		switch len(ins.Results) {
		case 0:
		case 1:
			v = x.val(fr, st, ins.Results[0])
		default:
			tv := TupleV{}
			for _, r := range ins.Results {
				tv.E = append(tv.E, x.val(fr, st, r))
			}
			v = tv
		}
		fr.rets = append(fr.rets, retInfo{st: st.clone(), val: v, pos: ins.Pos()})
		return false
	case *ssa.Jump:
		x.edge(fr, st, ins.Block(), ins.Block().Succs[0], "true", edgeState)
		return false
	case *ssa.If:
		c := x.boolTerm(x.val(fr, st, ins.Cond))
		c = m.def("c", SBool, c)
		x.edge(fr, st, ins.Block(), ins.Block().Succs[0], c, edgeState)
		x.edge(fr, st, ins.Block(), ins.Block().Succs[1], Not(c), edgeState)
		return false
	default:
		if v, ok := ins.(ssa.Value); ok {
			fr.reg[v] = m.freshValue(v.Type(), "unk")
		}
		x.note(fmt.Sprintf("instruction %T abstracted", ins))
	}
	// representation invariants of slices hold for every value, wherever it was read from
	if v, ok := ins.(ssa.Value); ok {
		if r, ok := fr.reg[v]; ok && r != nil {
			switch ins.(type) {
			case *ssa.UnOp, *ssa.Call, *ssa.Lookup, *ssa.Extract, *ssa.Next, *ssa.TypeAssert, *ssa.Field:
				m.wellFormed(r)
				x.known(st, r)
			}
		}
	}
	return true
}

func (x *Exec) newRef(hint string) Term {
	x.nAlloc++
	id := x.smt.fresh("ref."+hint, SInt)
	x.smt.assume(And("(< "+id+" 0)", Eq(App("asite", id), IntLit(int64(x.nAlloc)))))
	return "(base " + id + ")"
}

// pseudoSite lets contracts anchor assertions at map reads, map writes and map ranges
// (builtin.maplookup / builtin.mapupdate / builtin.maprange), which are instructions rather
// than calls.
func (x *Exec) pseudoSite(fr *Frame, st *State, key string, args []Value, pos token.Pos) {
	root := x.root
	if root == nil || root.spec == nil || fr.parent != nil {
		return
	}
	has := false
	for _, s := range root.spec.Sites {
		if strings.HasPrefix(s.Pattern, key) {
			has = true
		}
	}
	if !has {
		return
	}
	ms := x.matchSites(root, fr, st, key, key, args, pos)
	x.applySiteUpdates(root, fr, st, ms, nil, nil, pos)
}

// pseudoSiteRes is pseudoSite for a construct that yields a value (bound as `result`).
func (x *Exec) pseudoSiteRes(fr *Frame, st *State, key string, args []Value, res Value, pos token.Pos) {
	root := x.root
	if root == nil || root.spec == nil || fr.parent != nil {
		return
	}
	has := false
	for _, s := range root.spec.Sites {
		if strings.HasPrefix(s.Pattern, key) {
			has = true
		}
	}
	if !has {
		return
	}
	ms := x.matchSites(root, fr, st, key, key, args, pos)
	x.applySiteUpdates(root, fr, st, ms, res, nil, pos)
}

// frameWrite / frameRef: under "frame fresh-only" every heap write of the function under proof
// must target memory allocated by this activation (allocation ids are negative).
func (x *Exec) frameWrite(fr *Frame, st *State, p PtrV, pos token.Pos) {
	if p.Cell != nil {
		return
	}
	ref := p.Ref
	if p.Leaf != nil {
		ref = p.Leaf.idx[0]
	}
	x.frameRef(fr, st, ref, "store", pos)
}

func (x *Exec) frameRef(fr *Frame, st *State, ref Term, what string, pos token.Pos) {
	if x.root == nil || x.root.spec == nil || x.root.spec.Frame == "" || x.inInit {
		return
	}
	goal := "(< (rootid " + ref + ") 0)"
	if ref == "" && strings.HasPrefix(x.root.spec.Frame, "writes ") {
		// a "writes p..." frame speaks about the heap the caller can see; calls with external
		// effects (API writes) are allowed and what they write back is covered by the
		// object-rewrite obligations of their arguments
		return
	}
	if ref == "" {
		goal = "false"
	} else if strings.HasPrefix(x.root.spec.Frame, "writes ") {
		// writes to the named parameters' objects are allowed as well
		alts := []Term{goal}
		for _, pn := range strings.Fields(strings.TrimPrefix(x.root.spec.Frame, "writes ")) {
			if pv, ok := x.root.params[pn]; ok {
				switch v := pv.(type) {
				case MapV:
					alts = append(alts, Eq(ref, v.Ref))
				default:
					if r, ok := objRef(pv); ok {
						alts = append(alts, Eq(ref, r))
					}
				}
			}
		}
		goal = Or(alts...)
	}
	label := x.exprTextAt(fr, pos)
	if label == "" {
		label = what
	}
	o := &Obligation{Kind: "frame", Fn: x.fnKey, Anchor: "fresh-only", Label: label, PC: st.pc, Goal: goal,
		Src: "frame " + x.root.spec.Frame + ": " + what + " targets memory allocated by this call (or a listed parameter)", Pos: x.pos(pos), Props: allProps(x.root.spec)}
	x.addObligation(o)
}

// goEffect over-approximates what a started goroutine may do to the state the spawning
// function can still observe: captured variables the goroutine assigns become arbitrary, and
// every object held by a captured variable or passed as an argument is havoc'd. API effects
// of the goroutine are not composed with the spawning function's ghost state.
func (x *Exec) goEffect(fr *Frame, st *State, ins *ssa.Go) {
	var fn *ssa.Function
	var env []Value
	switch v := ins.Call.Value.(type) {
	case *ssa.MakeClosure:
		fn, _ = v.Fn.(*ssa.Function)
		for _, b := range v.Bindings {
			env = append(env, x.val(fr, st, b))
		}
	case *ssa.Function:
		fn = v
	}
	if fn == nil {
		x.havocAll(st, "go")
		return
	}
	assigned := map[int]bool{}
	for _, b := range fn.Blocks {
		for _, in := range b.Instrs {
			if s, ok := in.(*ssa.Store); ok {
				for i, fv := range fn.FreeVars {
					if s.Addr == ssa.Value(fv) {
						assigned[i] = true
					}
				}
			}
		}
	}
	havocVal := func(v Value) {
		switch o := v.(type) {
		case PtrV:
			if o.Cell == nil {
				x.havocObject(st, canonObj(o.Ref), o.Elem)
			}
		case IfaceV:
			x.havocObject(st, canonObj(o.Data), nil)
		}
	}
	for i, b := range env {
		p, ok := b.(PtrV)
		if !ok || p.Cell != nil {
			continue
		}
		cur := x.load(st, p)
		x.smt.wellFormed(cur)
		if !assigned[i] && x.closureOnlyReads(fn, i) {
			continue // the goroutine only reads this captured object
		}
		havocVal(cur)
		if assigned[i] {
			x.store(st, p, x.smt.freshValue(p.Elem, "go."+fn.FreeVars[i].Name()))
		}
	}
	for _, a := range ins.Call.Args {
		havocVal(x.val(fr, st, a))
	}
}

// closureOnlyReads: every use of captured variable i inside fn is a load whose value is only
// passed to calls that have no effect on their arguments (pure / nofx / model-field reads,
// accessor-style getters, logging), compared, or type-asserted.
func (x *Exec) closureOnlyReads(fn *ssa.Function, i int) bool {
	return x.onlyRead(fn.FreeVars[i], true, 0)
}

// onlyRead: v (an address when isAddr, else a value) is only loaded from, navigated through
// fields, compared, boxed into interfaces, or passed to calls that leave their arguments alone.
func (x *Exec) onlyRead(v ssa.Value, isAddr bool, depth int) bool {
	if depth > 6 || v.Referrers() == nil {
		return depth <= 6
	}
	for _, ref := range *v.Referrers() {
		switch u := ref.(type) {
		case *ssa.DebugRef, *ssa.BinOp, *ssa.If:
		case *ssa.UnOp:
			if !x.onlyRead(u, false, depth+1) {
				return false
			}
		case *ssa.FieldAddr:
			if !x.onlyRead(u, true, depth+1) {
				return false
			}
		case *ssa.Field, *ssa.TypeAssert, *ssa.MakeInterface, *ssa.ChangeInterface, *ssa.ChangeType, *ssa.Extract, *ssa.Phi:
			if !x.onlyRead(u.(ssa.Value), false, depth+1) {
				return false
			}
		case *ssa.Store:
			if isAddr && u.Addr == v {
				return false // written through
			}
			if !isAddr && u.Val == v {
				return false // escapes into memory
			}
		case ssa.CallInstruction:
			if !x.callLeavesArgsAlone(u.Common()) {
				return false
			}
		default:
			return false
		}
	}
	return true
}

func (x *Exec) callLeavesArgsAlone(c *ssa.CallCommon) bool {
	key, full := calleeKey(c)
	if spec := x.DB.lookup(key, full); spec != nil {
		switch spec.Kind {
		case "pure", "nofx", "mf":
			return len(spec.Havoc) == 0 && len(spec.HavocMF) == 0 && len(spec.SetMF) == 0
		}
		return false
	}
	if i := strings.LastIndex(key, ")."); i >= 0 {
		n := key[i+2:]
		return strings.HasPrefix(n, "Get") || strings.HasPrefix(n, "Is") || strings.HasPrefix(n, "Has")
	}
	return false
}

// newRefIn allocates a reference on the path of st: its id is below every id handed out before,
// hence it differs from every reference that was already read, received or allocated.
func (x *Exec) newRefIn(fr *Frame, st *State, hint string) Term {
	x.nAlloc++
	id := x.smt.fresh("ref."+hint, SInt)
	x.smt.assume(And("(< "+id+" 0)", "(< "+id+" "+st.allocLow+")", Eq(App("asite", id), IntLit(int64(x.nAlloc)))))
	st.allocLow = id
	return "(base " + id + ")"
}

// known records that the references inside v denote objects that exist now.
func (x *Exec) known(st *State, v Value) {
	if v == nil {
		return
	}
	if _, ok := v.(ArrayV); ok {
		return
	}
	if pv, ok := v.(PtrV); ok && pv.Cell != nil {
		return
	}
	ls := flatten(v)
	sh := leafShapeAny(valueType(v))
	if len(ls) != len(sh) {
		return
	}
	var fs []Term
	for i, l := range sh {
		if l.sort == SRef && ls[i] != NilRef && !strings.HasPrefix(ls[i], "(base ") && !strings.HasPrefix(ls[i], "(box") {
			fs = append(fs, "(>= (rootid "+ls[i]+") "+st.allocLow+")")
		}
	}
	if len(fs) > 0 {
		x.smt.assume(Implies(st.pc, And(fs...)))
	}
}

func (x *Exec) boolTerm(v Value) Term {
	if s, ok := v.(Scalar); ok && s.Sort == SBool {
		return s.T
	}
	x.note("non-bool condition")
	return x.smt.fresh("cond", SBool)
}

// val evaluates an SSA operand.
func (x *Exec) val(fr *Frame, st *State, v ssa.Value) Value {
	m := x.smt
	switch v := v.(type) {
	case *ssa.Const:
		return x.constVal(v)
	case *ssa.Function:
		return FuncV{T: "(base " + IntLit(int64(2000000+x.refKind("fn."+v.String()))) + ")", Typ: v.Type(), Fn: v}
	case *ssa.Global:
		name := "glob." + v.String()
		ref := "(base " + IntLit(int64(1000000+x.refKind(name))) + ")"
		return PtrV{Ref: ref, Elem: v.Type().(*types.Pointer).Elem()}
	case *ssa.Builtin:
		return OpaqueV{T: "0", Typ: v.Type()}
	}
	if r, ok := fr.reg[v]; ok {
		return r
	}
	// values of enclosing frames are not visible; parameters/freevars are set at frame start
	x.note("use of undefined SSA value")
	r := m.freshValue(v.Type(), "undef")
	fr.reg[v] = r
	return r
}

func (x *Exec) constVal(c *ssa.Const) Value {
	m := x.smt
	t := c.Type()
	if c.Value == nil {
		if tp, ok := t.(*types.TypeParam); ok {
			_ = tp
			return OpaqueV{T: "0", Typ: t}
		}
		return m.zeroValue(t)
	}
	switch c.Value.Kind() {
	case constant.Bool:
		if constant.BoolVal(c.Value) {
			return Scalar{T: "true", Sort: SBool, Typ: t}
		}
		return Scalar{T: "false", Sort: SBool, Typ: t}
	case constant.String:
		return Scalar{T: m.strlit(constant.StringVal(c.Value)), Sort: SStr, Typ: t}
	case constant.Int:
		if b, ok := t.Underlying().(*types.Basic); ok && b.Info()&types.IsFloat != 0 {
			return Scalar{T: realLit(c.Value), Sort: SReal, Typ: t}
		}
		if n, ok := constant.Int64Val(c.Value); ok {
			return Scalar{T: IntLit(n), Sort: SInt, Typ: t}
		}
		if n, ok := constant.Uint64Val(c.Value); ok {
			return Scalar{T: fmt.Sprintf("%d", n), Sort: SInt, Typ: t}
		}
		return Scalar{T: m.fresh("bigconst", SInt), Sort: SInt, Typ: t}
	case constant.Float:
		if b, ok := t.Underlying().(*types.Basic); ok && b.Info()&types.IsInteger != 0 {
			if n, ok := constant.Int64Val(constant.ToInt(c.Value)); ok {
				return Scalar{T: IntLit(n), Sort: SInt, Typ: t}
			}
		}
		return Scalar{T: realLit(c.Value), Sort: SReal, Typ: t}
	}
	return m.freshValue(t, "const")
}

func realLit(v constant.Value) Term {
	f, _ := constant.Float64Val(v)
	s := fmt.Sprintf("%f", f)
	if strings.HasPrefix(s, "-") {
		return "(- " + s[1:] + ")"
	}
	return s
}

func (x *Exec) fieldAddr(p PtrV, field int) PtrV {
	s := structOf(p.Elem)
	if s == nil {
		x.note("FieldAddr on non-struct pointee")
		return PtrV{Ref: x.smt.fresh("fa", SRef), Elem: p.Elem}
	}
	ft := s.Field(field).Type()
	if p.Cell != nil {
		return PtrV{Cell: p.Cell, Path: append(append([]int(nil), p.Path...), field), Elem: ft, Ref: NilRef}
	}
	ref := x.fldRef(p.Elem, field, p.Ref)
	if structOf(ft) != nil {
		return PtrV{Ref: ref, Elem: ft}
	}
	return PtrV{Ref: ref, Elem: ft, Leaf: &leafAddr{prefix: fieldArrayName(p.Elem, s.Field(field)), idx: []Term{p.Ref}}}
}

func (x *Exec) elemAddr(elem types.Type, arr, idx Term) PtrV {
	if structOf(elem) != nil {
		return PtrV{Ref: x.elemRef(elem, arr, idx), Elem: elem}
	}
	return PtrV{Ref: x.elemRef(elem, arr, idx), Elem: elem, Leaf: &leafAddr{prefix: "E." + typeName(elem), idx: []Term{arr, idx}}}
}

func (x *Exec) indexAddr(fr *Frame, st *State, ins *ssa.IndexAddr) Value {
	m := x.smt
	base := x.val(fr, st, ins.X)
	idx := x.intTerm(x.val(fr, st, ins.Index))
	switch b := base.(type) {
	case SliceV:
		elem := b.Typ.Underlying().(*types.Slice).Elem()
		if x.sweep {
			x.safe(fr, st, And("(<= 0 "+idx+")", "(< "+idx+" "+b.Len+")"), "index", ins.Pos(), "index in range")
			if fr.depth == 0 && len(x.obls) > 0 {
				x.obls[len(x.obls)-1].Watch = []watch{{Name: "idx", Term: idx}, {Name: "len", Term: b.Len}}
			}
		}
		x.assumeAt(st, And("(<= 0 "+idx+")", "(< "+idx+" "+b.Len+")"))
		return x.elemAddr(elem, b.Arr, x.sliceIdx(b.Off, idx))
	case PtrV:
		at, ok := b.Elem.Underlying().(*types.Array)
		if !ok {
			break
		}
		if b.Cell != nil {
			x.note("index into local array value abstracted")
			return PtrV{Ref: m.fresh("arrcell", SRef), Elem: at.Elem()}
		}
		return x.elemAddr(at.Elem(), b.Ref, idx)
	}
	x.note("IndexAddr on unsupported base")
	return m.freshValue(ins.Type(), "ia")
}

func addT(a, b Term) Term {
	if a == "0" {
		return b
	}
	if b == "0" {
		return a
	}
	return "(+ " + a + " " + b + ")"
}

func (x *Exec) intTerm(v Value) Term {
	switch v := v.(type) {
	case Scalar:
		if v.Sort == SInt {
			return v.T
		}
	case OpaqueV:
		return v.T
	}
	x.note("non-int used as int")
	return x.smt.fresh("int", SInt)
}

func (x *Exec) assumeAt(st *State, f Term) {
	x.smt.assume(Implies(st.pc, f))
}

func (x *Exec) unop(fr *Frame, st *State, ins *ssa.UnOp) Value {
	m := x.smt
	v := x.val(fr, st, ins.X)
	switch ins.Op {
	case token.MUL:
		p, ok := v.(PtrV)
		if !ok {
			x.note("load through non-pointer")
			return m.freshValue(ins.Type(), "ld")
		}
		x.safeNonNil(fr, st, p, ins.Pos(), "load")
		lv := x.retype(x.load(st, p), ins.Type())
		if sv, ok := lv.(StructV); ok && p.Cell == nil && p.Leaf == nil && canonObj(p.Ref) == p.Ref {
			sv.Src, sv.SrcSnap = canonObj(p.Ref), x.mfSnapshot(st)
			lv = sv
		}
		return lv
	case token.NOT:
		return Scalar{T: Not(x.boolTerm(v)), Sort: SBool, Typ: ins.Type()}
	case token.SUB:
		if s, ok := v.(Scalar); ok && (s.Sort == SInt || s.Sort == SReal) {
			return Scalar{T: "(- " + s.T + ")", Sort: s.Sort, Typ: ins.Type()}
		}
	case token.ARROW:
		// the received value is arbitrary (concurrency is not modelled); a contract may name it
		// through the pseudo-site builtin.recv($ch), whose result is the value received
		x.note("channel receive abstracted (concurrency)")
		rv := m.freshValue(ins.Type(), "recv")
		x.pseudoSiteRes(fr, st, "builtin.recv", []Value{v}, rv, ins.Pos())
		return rv
	}
	x.note("unary " + ins.Op.String() + " abstracted")
	return m.freshValue(ins.Type(), "un")
}

func (x *Exec) nilTerm(v Value) (Term, bool) {
	switch v := v.(type) {
	case PtrV:
		if v.Cell != nil {
			return "false", true
		}
		return Eq(v.Ref, NilRef), true
	case MapV:
		return Eq(v.Ref, NilRef), true
	case IfaceV:
		return Eq(v.Tag, "0"), true
	case SliceV:
		return Eq(v.Arr, NilRef), true
	case FuncV:
		return Eq(v.T, NilRef), true
	case OpaqueV:
		if v.T == "0" {
			return "true", true
		}
		return Eq(v.T, NilRef), true
	}
	return "", false
}

func isNilConst(v ssa.Value) bool {
	c, ok := v.(*ssa.Const)
	return ok && c.Value == nil && isNilable(c.Type())
}

func (x *Exec) binop(fr *Frame, st *State, op token.Token, a, b Value, rt types.Type, pos token.Pos) Value {
	m := x.smt
	boolRes := func(t Term) Value { return Scalar{T: t, Sort: SBool, Typ: rt} }
	if op == token.EQL || op == token.NEQ {
		var t Term
		_, aIface := a.(IfaceV)
		_, bIface := b.(IfaceV)
		switch {
		case aIface && bIface:
			av, bv := a.(IfaceV), b.(IfaceV)
			if bv.Tag == "0" && bv.Data == NilRef {
				t = Eq(av.Tag, "0")
			} else if av.Tag == "0" && av.Data == NilRef {
				t = Eq(bv.Tag, "0")
			} else {
				t = And(Eq(av.Tag, bv.Tag), Eq(av.Data, bv.Data))
			}
		default:
			if sa, ok := a.(SliceV); ok {
				t = Eq(sa.Arr, NilRef)
				if sb, ok := b.(SliceV); ok && sb.Arr != NilRef {
					t = Eq(sb.Arr, NilRef)
				}
			} else {
				t = eqValue(a, b)
			}
		}
		if op == token.NEQ {
			t = Not(t)
		}
		return boolRes(m.def("cmp", SBool, t))
	}
	sa, ok1 := a.(Scalar)
	sb, ok2 := b.(Scalar)
	if !ok1 || !ok2 {
		x.note("binary op on non-scalars abstracted")
		return m.freshValue(rt, "bin")
	}
	res := func(t Term, sort string) Value { return Scalar{T: m.def("b", sort, t), Sort: sort, Typ: rt} }
	switch sa.Sort {
	case SInt:
		switch op {
		case token.ADD:
			return res("(+ "+sa.T+" "+sb.T+")", SInt)
		case token.SUB:
			return res("(- "+sa.T+" "+sb.T+")", SInt)
		case token.MUL:
			return res("(* "+sa.T+" "+sb.T+")", SInt)
		case token.QUO:
			if x.sweep {
				x.safe(fr, st, Not(Eq(sb.T, "0")), "div", pos, "division by zero")
			}
			return res(App(x.goDiv(), sa.T, sb.T), SInt)
		case token.REM:
			if x.sweep {
				x.safe(fr, st, Not(Eq(sb.T, "0")), "div", pos, "division by zero")
			}
			return res(App(x.goRem(), sa.T, sb.T), SInt)
		case token.LSS:
			return boolRes("(< " + sa.T + " " + sb.T + ")")
		case token.LEQ:
			return boolRes("(<= " + sa.T + " " + sb.T + ")")
		case token.GTR:
			return boolRes("(> " + sa.T + " " + sb.T + ")")
		case token.GEQ:
			return boolRes("(>= " + sa.T + " " + sb.T + ")")
		default:
			f := m.fun("bitop."+op.String(), []string{SInt, SInt}, SInt)
			return res(App(f, sa.T, sb.T), SInt)
		}
	case SReal:
		switch op {
		case token.ADD:
			return res("(+ "+sa.T+" "+sb.T+")", SReal)
		case token.SUB:
			return res("(- "+sa.T+" "+sb.T+")", SReal)
		case token.MUL:
			return res("(* "+sa.T+" "+sb.T+")", SReal)
		case token.QUO:
			return res("(/ "+sa.T+" "+sb.T+")", SReal)
		case token.LSS:
			return boolRes("(< " + sa.T + " " + sb.T + ")")
		case token.LEQ:
			return boolRes("(<= " + sa.T + " " + sb.T + ")")
		case token.GTR:
			return boolRes("(> " + sa.T + " " + sb.T + ")")
		case token.GEQ:
			return boolRes("(>= " + sa.T + " " + sb.T + ")")
		}
	case SStr:
		switch op {
		case token.ADD:
			return Scalar{T: x.strConcat(sa.T, sb.T), Sort: SStr, Typ: rt}
		case token.LSS, token.LEQ, token.GTR, token.GEQ:
			f := m.fun("str.lt", []string{SStr, SStr}, SBool)
			switch op {
			case token.LSS:
				return boolRes(App(f, sa.T, sb.T))
			case token.GTR:
				return boolRes(App(f, sb.T, sa.T))
			case token.LEQ:
				return boolRes(Not(App(f, sb.T, sa.T)))
			default:
				return boolRes(Not(App(f, sa.T, sb.T)))
			}
		}
	case SBool:
		switch op {
		case token.AND, token.LAND:
			return boolRes(And(sa.T, sb.T))
		case token.OR, token.LOR:
			return boolRes(Or(sa.T, sb.T))
		}
	}
	x.note("binary " + op.String() + " abstracted")
	return m.freshValue(rt, "bin")
}

func (x *Exec) goDiv() string {
	m := x.smt
	if _, ok := m.funs["godiv"]; !ok {
		m.funs["godiv"] = "def"
		m.decls = append(m.decls, "(define-fun godiv ((a Int) (b Int)) Int (ite (>= a 0) (ite (> b 0) (div a b) (- (div a (- b)))) (ite (> b 0) (- (div (- a) b)) (div (- a) (- b)))))")
	}
	return "godiv"
}

func (x *Exec) goRem() string {
	m := x.smt
	x.goDiv()
	if _, ok := m.funs["gorem"]; !ok {
		m.funs["gorem"] = "def"
		m.decls = append(m.decls, "(define-fun gorem ((a Int) (b Int)) Int (- a (* b (godiv a b))))")
	}
	return "gorem"
}

func (x *Exec) strConcat(a, b Term) Term {
	m := x.smt
	f := m.fun("str.concat", []string{SStr, SStr}, SStr)
	t := App(f, a, b)
	m.assume(And(Eq(App("strlen", t), "(+ "+App("strlen", a)+" "+App("strlen", b)+")"), "(>= "+App("strlen", a)+" 0)", "(>= "+App("strlen", b)+" 0)"))
	return t
}

// loopPos is the source position at which a loop's clauses are evaluated: just inside the loop
// body (so that names resolve to the variables in scope there), or the header's first
// instruction when the loop has no syntax.
func loopPos(li *loopInfo) token.Pos {
	switch l := li.astLoop.(type) {
	case *ast.ForStmt:
		if l.Body != nil {
			return l.Body.Lbrace + 1
		}
	case *ast.RangeStmt:
		if l.Body != nil {
			return l.Body.Lbrace + 1
		}
	}
	return li.header.Instrs[0].Pos()
}
