package main

import (
	"bytes"
	"context"
	"encoding/json"
	"fmt"
	"os"
	"os/exec"
	"path/filepath"
	"strings"
	"time"
)

// A bounded stand-in: real code run exhaustively up to a stated bound against a reference
// oracle, for a function the deductive generator does not reach. It is reported separately in
// the evidence, labelled bounded, and never counted among the discharged obligations.
type boundedSpec struct {
	Property string                       `json:"property"`
	Name     string                       `json:"name"`
	What     string                       `json:"what"`
	Reason   string                       `json:"reason"`
	PkgDir   string                       `json:"pkg_dir"`  // relative to the repository root
	Template string                       `json:"template"` // relative to /verif
	TestFunc string                       `json:"test_func"`
	Bound    map[string]string            `json:"bound"` // tier -> stated bound
	Env      map[string]map[string]string `json:"env"`   // tier -> environment
	TimeoutS int                          `json:"timeout_s"`
}

type boundedResult struct {
	Spec    *boundedSpec
	OK      bool
	Report  string // the VERIF-BOUNDED json line
	Output  string
	Seconds float64
}

func loadBounded(prop string) []*boundedSpec {
	files, _ := filepath.Glob(filepath.Join(verifDir(), "bounded", prop+"_*.bounded.json"))
	var out []*boundedSpec
	for _, f := range files {
		b, err := os.ReadFile(f)
		if err != nil {
			continue
		}
		var s boundedSpec
		if json.Unmarshal(b, &s) == nil {
			out = append(out, &s)
		}
	}
	return out
}

func runBounded(s *boundedSpec, tier, workDir string) *boundedResult {
	os.MkdirAll(workDir, 0o755)
	pkgDir := filepath.Join(repoDir(), s.PkgDir)
	ov := map[string]map[string]string{"Replace": {filepath.Join(pkgDir, "zz_verif_bounded_test.go"): filepath.Join(verifDir(), s.Template)}}
	ob, _ := json.Marshal(ov)
	ovFile := filepath.Join(workDir, fileSafe(s.Name)+".overlay.json")
	os.WriteFile(ovFile, ob, 0o644)
	to := s.TimeoutS
	if to == 0 {
		to = 300
	}
	ctx, cancel := context.WithTimeout(context.Background(), time.Duration(to+60)*time.Second)
	defer cancel()
	cmd := exec.CommandContext(ctx, "go", "test", "-overlay", ovFile, "-vet=off", "-count=1", "-timeout", fmt.Sprintf("%ds", to), "-run", "^"+s.TestFunc+"$", "-v", ".")
	cmd.Dir = pkgDir
	cmd.Env = append(os.Environ(), "GOFLAGS=-mod=mod", "GOPROXY=off", "GOSUMDB=off", "GOTOOLCHAIN=local")
	for k, v := range s.Env[tier] {
		cmd.Env = append(cmd.Env, k+"="+v)
	}
	var out bytes.Buffer
	cmd.Stdout = &out
	cmd.Stderr = &out
	t0 := time.Now()
	err := cmd.Run()
	r := &boundedResult{Spec: s, Seconds: time.Since(t0).Seconds()}
	text := out.String()
	if len(text) > 20000 {
		text = text[:20000]
	}
	r.Output = text
	for _, l := range strings.Split(text, "\n") {
		if i := strings.Index(l, "VERIF-BOUNDED "); i >= 0 {
			r.Report = strings.TrimSpace(l[i+len("VERIF-BOUNDED "):])
		}
	}
	r.OK = err == nil && r.Report != "" && !strings.Contains(text, "VERIF-REPRODUCED")
	return r
}
