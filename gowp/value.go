package main

import (
	"fmt"
	"go/types"
	"strings"
)

// Symbolic values. Every Go value is a tree whose leaves are SMT terms.

type Value interface{}

type Scalar struct { // bool, ints, floats, strings
	T    Term
	Sort string
	Typ  types.Type
}

type PtrV struct {
	Ref  Term       // the pointer as a term (always valid)
	Elem types.Type // pointee type
	Cell *Cell      // non-nil: address inside a non-escaping local
	Path []int      // field path inside the cell
	Leaf *leafAddr  // non-nil: address of a non-struct leaf inside a heap object
}

// leafAddr addresses a non-struct component stored in a field array
// (H.<S>.<f>, index = object ref) or an element array (E.<T>, arr, idx).
type leafAddr struct {
	prefix string // array name prefix
	idx    []Term // one index (field) or two (element)
}

type StructV struct {
	Typ types.Type // named or struct type
	F   []Value
	// Src, when set, is the object this value was loaded from as a whole, with the versions the
	// model-field arrays had at that moment: storing the value into another object copies the
	// object's model fields too (see Exec.store and mfAlias).
	Src     Term
	SrcSnap map[string]Term
}

type SliceV struct {
	Arr, Off, Len, Cap Term
	Typ                types.Type // the slice type
}

type MapV struct {
	Ref Term
	Typ types.Type
}

type IfaceV struct {
	Tag, Data Term
	Typ       types.Type
	Dyn       types.Type // statically known dynamic type, if any
}

type FuncV struct {
	T   Term
	Typ types.Type
	Fn  interface{} // *ssa.Function when statically known
	Env []Value     // closure bindings
}

type OpaqueV struct {
	T   Term
	Typ types.Type
}

type TupleV struct {
	E []Value
}

// Cell is a non-escaping local variable.
type Cell struct {
	Name string
	Typ  types.Type
	id   int
}

func structOf(t types.Type) *types.Struct {
	s, _ := t.Underlying().(*types.Struct)
	return s
}

type leaf struct {
	suffix string
	sort   string
	term   Term
}

// leafShape lists suffix/sort pairs of the flattened form of type t.
func leafShape(t types.Type) []leaf {
	var out []leaf
	var rec func(t types.Type, pre string, depth int)
	rec = func(t types.Type, pre string, depth int) {
		switch u := t.Underlying().(type) {
		case *types.Basic:
			out = append(out, leaf{pre, basicSort(u), ""})
		case *types.Struct:
			if depth > 6 {
				out = append(out, leaf{pre, SInt, ""})
				return
			}
			for i := 0; i < u.NumFields(); i++ {
				rec(u.Field(i).Type(), pre+"."+u.Field(i).Name(), depth+1)
			}
		case *types.Slice:
			out = append(out, leaf{pre + "#arr", SRef, ""}, leaf{pre + "#off", SInt, ""}, leaf{pre + "#len", SInt, ""}, leaf{pre + "#cap", SInt, ""})
		case *types.Interface:
			out = append(out, leaf{pre + "#tag", SInt, ""}, leaf{pre + "#data", SRef, ""})
		case *types.Pointer, *types.Map, *types.Chan, *types.Signature:
			out = append(out, leaf{pre, SRef, ""})
		default:
			out = append(out, leaf{pre, SInt, ""})
		}
	}
	rec(t, "", 0)
	return out
}

func basicSort(b *types.Basic) string {
	switch {
	case b.Info()&types.IsBoolean != 0:
		return SBool
	case b.Info()&types.IsString != 0:
		return SStr
	case b.Info()&types.IsFloat != 0, b.Info()&types.IsComplex != 0:
		return SReal
	}
	return SInt
}

// flatten returns the leaf terms of v in leafShape order.
func flatten(v Value) []Term {
	switch v := v.(type) {
	case Scalar:
		return []Term{v.T}
	case PtrV:
		return []Term{v.Ref}
	case MapV:
		return []Term{v.Ref}
	case FuncV:
		return []Term{v.T}
	case OpaqueV:
		return []Term{v.T}
	case IfaceV:
		return []Term{v.Tag, v.Data}
	case SliceV:
		return []Term{v.Arr, v.Off, v.Len, v.Cap}
	case StructV:
		var out []Term
		for _, f := range v.F {
			out = append(out, flatten(f)...)
		}
		return out
	case TupleV:
		var out []Term
		for _, f := range v.E {
			out = append(out, flatten(f)...)
		}
		return out
	case nil:
		return nil
	}
	panic(fmt.Sprintf("flatten: %T", v))
}

// unflatten rebuilds a value of type t from leaf terms; returns the rest.
func unflatten(t types.Type, ts []Term) (Value, []Term) {
	return unflattenD(t, ts, 0)
}

func unflattenD(t types.Type, ts []Term, depth int) (Value, []Term) {
	switch u := t.Underlying().(type) {
	case *types.Basic:
		return Scalar{T: ts[0], Sort: basicSort(u), Typ: t}, ts[1:]
	case *types.Pointer:
		return PtrV{Ref: ts[0], Elem: u.Elem()}, ts[1:]
	case *types.Map:
		return MapV{Ref: ts[0], Typ: t}, ts[1:]
	case *types.Signature:
		return FuncV{T: ts[0], Typ: t}, ts[1:]
	case *types.Interface:
		return IfaceV{Tag: ts[0], Data: ts[1], Typ: t}, ts[2:]
	case *types.Slice:
		return SliceV{Arr: ts[0], Off: ts[1], Len: ts[2], Cap: ts[3], Typ: t}, ts[4:]
	case *types.Struct:
		if depth > 6 {
			return OpaqueV{T: ts[0], Typ: t}, ts[1:]
		}
		sv := StructV{Typ: t}
		for i := 0; i < u.NumFields(); i++ {
			var f Value
			f, ts = unflattenD(u.Field(i).Type(), ts, depth+1)
			sv.F = append(sv.F, f)
		}
		return sv, ts
	case *types.Tuple:
		tv := TupleV{}
		for i := 0; i < u.Len(); i++ {
			var f Value
			f, ts = unflattenD(u.At(i).Type(), ts, depth)
			tv.E = append(tv.E, f)
		}
		return tv, ts
	}
	return OpaqueV{T: ts[0], Typ: t}, ts[1:]
}

func shapeOfTuple(t *types.Tuple) []leaf {
	var out []leaf
	for i := 0; i < t.Len(); i++ {
		for _, l := range leafShape(t.At(i).Type()) {
			l.suffix = fmt.Sprintf("r%d%s", i, l.suffix)
			out = append(out, l)
		}
	}
	return out
}

func leafShapeAny(t types.Type) []leaf {
	if tt, ok := t.(*types.Tuple); ok {
		return shapeOfTuple(tt)
	}
	return leafShape(t)
}

// freshValue makes an unconstrained value of type t.
func (m *SMT) freshValue(t types.Type, hint string) Value {
	sh := leafShapeAny(t)
	ts := make([]Term, len(sh))
	for i, l := range sh {
		ts[i] = m.fresh(hint+l.suffix, l.sort)
	}
	v, _ := unflatten(t, ts)
	m.wellFormed(v)
	return v
}

// wellFormed assumes the representation invariants of slices inside v.
func (m *SMT) wellFormed(v Value) {
	switch v := v.(type) {
	case SliceV:
		m.assume(And("(<= 0 "+v.Len+")", "(<= "+v.Len+" "+v.Cap+")", "(<= 0 "+v.Off+")"))
		m.assume(Implies(Eq(v.Arr, NilRef), Eq(v.Len, "0")))
	case IfaceV:
		// the dynamic type of an interface value implements the interface: it is none of the
		// pointer types seen so far that do not; and the boxed reference has that dynamic type
		if it, ok := v.Typ.Underlying().(*types.Interface); ok && v.Dyn == nil && v.Tag != "0" {
			var fs []Term
			for _, pt := range m.ptrTypes {
				if !types.Implements(pt, it) {
					fs = append(fs, Not(Eq(v.Tag, IntLit(int64(m.typeIDOf(pt))))))
				}
			}
			fs = append(fs, Implies(Not(Eq(v.Tag, "0")), Eq("(dyntype "+v.Data+")", v.Tag)))
			fs = append(fs, Implies(Eq(v.Tag, "0"), Eq(v.Data, NilRef)))
			m.assume(And(fs...))
		}
	case PtrV:
		// a non-nil pointer to a named struct type points to an object of that type: pointers
		// of different struct types never alias
		if v.Cell == nil && v.Leaf == nil && v.Ref != NilRef && structOf(v.Elem) != nil {
			if _, named := v.Elem.(*types.Named); named {
				m.assume("(or (= " + v.Ref + " nilref) (= (dyntype " + v.Ref + ") " + IntLit(int64(m.typeIDOf(types.NewPointer(v.Elem)))) + "))")
			}
		}
	case StructV:
		for _, f := range v.F {
			m.wellFormed(f)
		}
	case TupleV:
		for _, f := range v.E {
			m.wellFormed(f)
		}
	}
}

// zeroValue is Go's zero value of t.
func (m *SMT) zeroValue(t types.Type) Value {
	sh := leafShapeAny(t)
	ts := make([]Term, len(sh))
	for i, l := range sh {
		switch l.sort {
		case SBool:
			ts[i] = "false"
		case SStr:
			ts[i] = m.strlit("")
		case SReal:
			ts[i] = "0.0"
		case SRef:
			ts[i] = NilRef
		default:
			ts[i] = "0"
		}
	}
	v, _ := unflatten(t, ts)
	return v
}

// iteValue merges two values of the same shape.
func (m *SMT) iteValue(c Term, a, b Value) Value {
	if c == "true" {
		return a
	}
	if c == "false" {
		return b
	}
	switch av := a.(type) {
	case PtrV:
		bv, ok := b.(PtrV)
		if ok && av.Cell == bv.Cell && av.Cell != nil && samePath(av.Path, bv.Path) {
			return av
		}
		if ok && av.Ref == bv.Ref && av.Leaf == nil && bv.Leaf == nil && av.Cell == nil && bv.Cell == nil {
			return av
		}
		if ok {
			return PtrV{Ref: m.def("ite", SRef, Ite(c, av.Ref, bv.Ref)), Elem: av.Elem}
		}
	case IfaceV:
		if bv, ok := b.(IfaceV); ok {
			r := IfaceV{Tag: m.def("ite", SInt, Ite(c, av.Tag, bv.Tag)), Data: m.def("ite", SRef, Ite(c, av.Data, bv.Data)), Typ: av.Typ}
			if av.Dyn != nil && bv.Dyn != nil && types.Identical(av.Dyn, bv.Dyn) {
				r.Dyn = av.Dyn
			}
			return r
		}
	case FuncV:
		if bv, ok := b.(FuncV); ok {
			if av.T == bv.T {
				return av
			}
			return FuncV{T: m.def("ite", SRef, Ite(c, av.T, bv.T)), Typ: av.Typ}
		}
	}
	fa, fb := flatten(a), flatten(b)
	if len(fa) != len(fb) {
		panic(fmt.Sprintf("iteValue: shape mismatch %T %T", a, b))
	}
	t := valueType(a)
	sh := leafShapeAny(t)
	out := make([]Term, len(fa))
	for i := range fa {
		out[i] = m.def("ite", sh[i].sort, Ite(c, fa[i], fb[i]))
	}
	v, _ := unflatten(t, out)
	return v
}

func samePath(a, b []int) bool {
	if len(a) != len(b) {
		return false
	}
	for i := range a {
		if a[i] != b[i] {
			return false
		}
	}
	return true
}

func valueType(v Value) types.Type {
	switch v := v.(type) {
	case Scalar:
		return v.Typ
	case PtrV:
		return types.NewPointer(v.Elem)
	case MapV:
		return v.Typ
	case FuncV:
		return v.Typ
	case OpaqueV:
		return v.Typ
	case IfaceV:
		return v.Typ
	case SliceV:
		return v.Typ
	case StructV:
		return v.Typ
	case TupleV:
		vars := make([]*types.Var, len(v.E))
		for i, e := range v.E {
			vars[i] = types.NewVar(0, nil, "", valueType(e))
		}
		return types.NewTuple(vars...)
	}
	panic(fmt.Sprintf("valueType %T", v))
}

// eqValue is structural equality of two values as a Bool term.
func eqValue(a, b Value) Term {
	fa, fb := flatten(a), flatten(b)
	if len(fa) != len(fb) {
		// e.g. comparing a pointer against an interface nil: compare first leaf
		if len(fa) > 0 && len(fb) > 0 {
			return Eq(fa[0], fb[0])
		}
		return "false"
	}
	var cs []Term
	for i := range fa {
		cs = append(cs, Eq(fa[i], fb[i]))
	}
	return And(cs...)
}

func sameValue(a, b Value) bool {
	if a == nil || b == nil {
		return a == nil && b == nil
	}
	if pa, ok := a.(PtrV); ok {
		pb, ok := b.(PtrV)
		if !ok {
			return false
		}
		return pa.Ref == pb.Ref && pa.Cell == pb.Cell && samePath(pa.Path, pb.Path) && (pa.Leaf == pb.Leaf)
	}
	fa, fb := flatten(a), flatten(b)
	if len(fa) != len(fb) {
		return false
	}
	for i := range fa {
		if fa[i] != fb[i] {
			return false
		}
	}
	return true
}

func typeName(t types.Type) string {
	s := types.TypeString(t, func(p *types.Package) string {
		path := p.Path()
		path = strings.TrimPrefix(path, "github.com/crossplane/crossplane/")
		path = strings.TrimPrefix(path, "github.com/crossplane/")
		path = strings.TrimPrefix(path, "k8s.io/")
		path = strings.TrimPrefix(path, "sigs.k8s.io/")
		return path
	})
	s = strings.NewReplacer(" ", "", "|", "!", "\\", "!", ";", ",").Replace(s)
	if len(s) > 110 {
		s = s[:110] + fmt.Sprintf("~%x", hashStr(s))
	}
	return s
}

func hashStr(s string) uint32 {
	var h uint32 = 2166136261
	for i := 0; i < len(s); i++ {
		h ^= uint32(s[i])
		h *= 16777619
	}
	return h
}

func isNilable(t types.Type) bool {
	switch t.Underlying().(type) {
	case *types.Pointer, *types.Map, *types.Slice, *types.Interface, *types.Signature, *types.Chan:
		return true
	}
	return false
}
