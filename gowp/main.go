package main

import (
	"fmt"
	"os"
)

func main() {
	if len(os.Args) < 2 {
		fmt.Fprintln(os.Stderr, "usage: gowp <dump|check|replay> ...")
		os.Exit(2)
	}
	switch os.Args[1] {
	case "dump":
		os.Exit(cmdDump(os.Args[2:]))
	case "check":
		os.Exit(cmdCheck(os.Args[2:]))
	case "replay":
		os.Exit(cmdReplay(os.Args[2:]))
	default:
		fmt.Fprintln(os.Stderr, "unknown command")
		os.Exit(2)
	}
}
