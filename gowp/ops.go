package main

import (
	"fmt"
	"go/token"
	"go/types"
	"strconv"
	"strings"

	"golang.org/x/tools/go/ssa"
)

// ---------- maps ----------

// keyTerm encodes a map key as a single term and its sort.
func (x *Exec) keySort(kt types.Type) string {
	switch u := kt.Underlying().(type) {
	case *types.Basic:
		return basicSort(u)
	case *types.Pointer, *types.Chan:
		return SRef
	}
	return x.keyDatatype(kt)
}

// keyDatatype declares (once) the SMT datatype packing a composite map key (struct, interface,
// array): injective by construction, no axioms needed.
func (x *Exec) keyDatatype(kt types.Type) string {
	m := x.smt
	name := sym("Key." + typeName(kt))
	if _, ok := m.funs[name]; ok {
		return name
	}
	m.funs[name] = "datatype"
	var fields []string
	for i, l := range leafShape(kt) {
		fields = append(fields, fmt.Sprintf("(%s %s)", keySel(name, i), l.sort))
	}
	if len(fields) == 0 {
		fields = append(fields, fmt.Sprintf("(%s Int)", keySel(name, 0)))
	}
	decl := fmt.Sprintf("(declare-datatypes ((%s 0)) (((%s %s))))", name, keyCtor(name), strings.Join(fields, " "))
	m.decls = append(m.decls, decl)
	if x.keyDecls != nil {
		if _, seen := x.keyDecls[name]; !seen {
			x.keyDecls[name] = decl
			x.grew = true // array constants of this sort must be declared after it: one more pass
		}
	}
	return name
}

func keyCtor(dt string) string { return sym("mk" + strings.Trim(dt, "|")) }
func keySel(dt string, i int) string {
	return sym(fmt.Sprintf("%s^%d", strings.Trim(dt, "|"), i))
}

func (x *Exec) keyTerm(kt types.Type, v Value) Term {
	switch kt.Underlying().(type) {
	case *types.Basic, *types.Pointer, *types.Chan:
		return flatten(v)[0]
	}
	dt := x.keyDatatype(kt)
	sh := leafShape(kt)
	ls := flatten(v)
	if len(ls) != len(sh) {
		x.note("map key shape mismatch")
		return x.smt.fresh("key", dt)
	}
	return App(keyCtor(dt), ls...)
}

// keyValue decodes a key term back to a value of type kt.
func (x *Exec) keyValue(kt types.Type, k Term) Value {
	switch kt.Underlying().(type) {
	case *types.Basic, *types.Pointer, *types.Chan:
		v, _ := unflatten(kt, []Term{k})
		return v
	}
	dt := x.keyDatatype(kt)
	sh := leafShape(kt)
	ts := make([]Term, len(sh))
	for i := range sh {
		ts[i] = App(keySel(dt, i), k)
	}
	v, _ := unflatten(kt, ts)
	return v
}

func mapNames(mt *types.Map) (dom, val string) {
	return "Mdom." + typeName(mt.Key()) + "=>" + typeName(mt.Elem()), "Mval." + typeName(mt.Key()) + "=>" + typeName(mt.Elem())
}

func (x *Exec) mapDom(st *State, mv MapV) Term {
	mt := mv.Typ.Underlying().(*types.Map)
	dn, _ := mapNames(mt)
	ks := x.keySort(mt.Key())
	return Select(x.arr(st, dn, arrSort(SRef, arrSort(ks, SBool))), mv.Ref)
}

func cardName(mt *types.Map) string {
	return "Mcard." + typeName(mt.Key()) + "=>" + typeName(mt.Elem())
}

func (x *Exec) mapCard(st *State, mv MapV) Term {
	return Select(x.arr(st, cardName(mv.Typ.Underlying().(*types.Map)), arrSort(SRef, SInt)), mv.Ref)
}

func (x *Exec) mapInit(st *State, mv MapV) {
	mt := mv.Typ.Underlying().(*types.Map)
	dn, _ := mapNames(mt)
	ks := x.keySort(mt.Key())
	ds := arrSort(SRef, arrSort(ks, SBool))
	x.setArr(st, dn, ds, Store(x.arr(st, dn, ds), mv.Ref, "((as const "+arrSort(ks, SBool)+") false)"))
	cs := arrSort(SRef, SInt)
	x.setArr(st, cardName(mt), cs, Store(x.arr(st, cardName(mt), cs), mv.Ref, "0"))
}

func (x *Exec) mapValAt(st *State, mv MapV, k Term) Value {
	mt := mv.Typ.Underlying().(*types.Map)
	_, vn := mapNames(mt)
	ks := x.keySort(mt.Key())
	sh := leafShape(mt.Elem())
	ts := make([]Term, len(sh))
	for i, l := range sh {
		a := x.arr(st, vn+l.suffix, arrSort(SRef, arrSort(ks, l.sort)))
		ts[i] = Select(Select(a, mv.Ref), k)
	}
	v, _ := unflatten(mt.Elem(), ts)
	return v
}

// havocMap forgets the contents of one map object.
func (x *Exec) havocMap(st *State, mv MapV) {
	mt := mv.Typ.Underlying().(*types.Map)
	dn, vn := mapNames(mt)
	ks := x.keySort(mt.Key())
	ds := arrSort(SRef, arrSort(ks, SBool))
	x.setArr(st, dn, ds, Store(x.arr(st, dn, ds), mv.Ref, x.smt.fresh("mh.dom", arrSort(ks, SBool))))
	cs := arrSort(SRef, SInt)
	nc := x.smt.fresh("mh.card", SInt)
	x.smt.assume("(>= " + nc + " 0)")
	x.setArr(st, cardName(mt), cs, Store(x.arr(st, cardName(mt), cs), mv.Ref, nc))
	for _, l := range leafShape(mt.Elem()) {
		s := arrSort(SRef, arrSort(ks, l.sort))
		x.setArr(st, vn+l.suffix, s, Store(x.arr(st, vn+l.suffix, s), mv.Ref, x.smt.fresh("mh.val", arrSort(ks, l.sort))))
	}
}

func (x *Exec) mapStore(st *State, mv MapV, key, val Value) {
	m := x.smt
	mt := mv.Typ.Underlying().(*types.Map)
	dn, vn := mapNames(mt)
	ks := x.keySort(mt.Key())
	k := m.def("k", ks, x.keyTerm(mt.Key(), key))
	ds := arrSort(SRef, arrSort(ks, SBool))
	dom := x.arr(st, dn, ds)
	had := Select(Select(dom, mv.Ref), k)
	cs := arrSort(SRef, SInt)
	card := x.arr(st, cardName(mt), cs)
	// a map that holds a key has at least one entry
	x.assumeAt(st, And("(>= "+Select(card, mv.Ref)+" 0)", Implies(had, "(>= "+Select(card, mv.Ref)+" 1)")))
	x.setArr(st, cardName(mt), cs, Store(card, mv.Ref, "(+ "+Select(card, mv.Ref)+" "+Ite(had, "0", "1")+")"))
	x.setArr(st, dn, ds, Store(dom, mv.Ref, Store(Select(dom, mv.Ref), k, "true")))
	sh := leafShape(mt.Elem())
	ls := flatten(x.retype(val, mt.Elem()))
	if len(ls) != len(sh) {
		x.note("map value shape mismatch")
		return
	}
	for i, l := range sh {
		s := arrSort(SRef, arrSort(ks, l.sort))
		a := x.arr(st, vn+l.suffix, s)
		x.setArr(st, vn+l.suffix, s, Store(a, mv.Ref, Store(Select(a, mv.Ref), k, ls[i])))
	}
}

func (x *Exec) mapDelete(st *State, mv MapV, key Value) {
	m := x.smt
	mt := mv.Typ.Underlying().(*types.Map)
	dn, _ := mapNames(mt)
	ks := x.keySort(mt.Key())
	k := m.def("k", ks, x.keyTerm(mt.Key(), key))
	ds := arrSort(SRef, arrSort(ks, SBool))
	dom := x.arr(st, dn, ds)
	had := Select(Select(dom, mv.Ref), k)
	cs := arrSort(SRef, SInt)
	card := x.arr(st, cardName(mt), cs)
	x.assumeAt(st, And("(>= "+Select(card, mv.Ref)+" 0)", Implies(had, "(>= "+Select(card, mv.Ref)+" 1)")))
	x.setArr(st, cardName(mt), cs, Store(card, mv.Ref, "(- "+Select(card, mv.Ref)+" "+Ite(had, "1", "0")+")"))
	x.setArr(st, dn, ds, Store(dom, mv.Ref, Store(Select(dom, mv.Ref), k, "false")))
}

func (x *Exec) lookup(fr *Frame, st *State, ins *ssa.Lookup) Value {
	m := x.smt
	base := x.val(fr, st, ins.X)
	mv, ok := base.(MapV)
	if !ok {
		x.note("Lookup on string abstracted")
		return m.freshValue(ins.Type(), "lk")
	}
	mt := mv.Typ.Underlying().(*types.Map)
	k := m.def("k", x.keySort(mt.Key()), x.keyTerm(mt.Key(), x.val(fr, st, ins.Index)))
	has := m.def("has", SBool, And(Not(Eq(mv.Ref, NilRef)), Select(x.mapDom(st, mv), k)))
	x.assumeAt(st, Implies(has, "(>= "+x.mapCard(st, mv)+" 1)"))
	v := m.iteValue(has, x.mapValAt(st, mv, k), m.zeroValue(mt.Elem()))
	if ins.CommaOk {
		return TupleV{E: []Value{v, Scalar{T: has, Sort: SBool, Typ: types.Typ[types.Bool]}}}
	}
	return v
}

func (x *Exec) rangeInit(fr *Frame, st *State, ins *ssa.Range) Value {
	m := x.smt
	base := x.val(fr, st, ins.X)
	if mv, ok := base.(MapV); ok {
		mt := mv.Typ.Underlying().(*types.Map)
		ks := x.keySort(mt.Key())
		name := fmt.Sprintf("visited!%d", len(fr.iters))
		if g, ok := fr.iters[ins]; ok {
			name = g
		}
		fr.iters[ins] = name
		st.ghost[name] = ArrayV{T: "((as const " + arrSort(ks, SBool) + ") false)", Sort: arrSort(ks, SBool), Key: mt.Key()}
		// number of keys produced so far, and the map's key set when the range started
		st.ghost[name+"#n"] = intV("0")
		dn, _ := mapNames(mt)
		fr.iterDom[ins] = x.arr(st, dn, arrSort(SRef, arrSort(ks, SBool)))
	}
	_ = m
	return OpaqueV{T: "0", Typ: ins.Type()}
}

func (x *Exec) next(fr *Frame, st *State, ins *ssa.Next) Value {
	m := x.smt
	r, _ := ins.Iter.(*ssa.Range)
	tt := ins.Type().(*types.Tuple)
	ok := m.fresh("next.ok", SBool)
	okV := Scalar{T: ok, Sort: SBool, Typ: types.Typ[types.Bool]}
	if r == nil || ins.IsString {
		x.note("string range abstracted")
		return TupleV{E: []Value{okV, m.freshValue(tt.At(1).Type(), "rk"), m.freshValue(tt.At(2).Type(), "rv")}}
	}
	mv, isMap := x.val(fr, st, r.X).(MapV)
	if !isMap {
		return TupleV{E: []Value{okV, m.freshValue(tt.At(1).Type(), "rk"), m.freshValue(tt.At(2).Type(), "rv")}}
	}
	mt := mv.Typ.Underlying().(*types.Map)
	ks := x.keySort(mt.Key())
	g := fr.iters[r]
	vis, _ := st.ghost[g].(ArrayV)
	if vis.T == "" {
		vis = ArrayV{T: m.fresh("vis", arrSort(ks, SBool)), Sort: arrSort(ks, SBool), Key: mt.Key()}
	}
	k := m.fresh("next.k", ks)
	dom := m.def("dom", arrSort(ks, SBool), x.mapDom(st, mv))
	x.assumeAt(st, Implies(ok, And(Not(Eq(mv.Ref, NilRef)), Select(dom, k), Not(Select(vis.T, k)))))
	x.assumeAt(st, Implies(Not(ok), Or(Eq(mv.Ref, NilRef), fmt.Sprintf("(forall ((q %s)) (=> (select %s q) (select %s q)))", ks, dom, vis.T))))
	st.ghost[g] = ArrayV{T: m.def("vis", vis.Sort, Ite(ok, Store(vis.T, k, "true"), vis.T)), Sort: vis.Sort, Key: mt.Key()}
	if nv, ok2 := st.ghost[g+"#n"].(Scalar); ok2 {
		// when the map's key set was not written since the range started, the iteration
		// produces each key exactly once: it ends after len(map) keys
		dn, _ := mapNames(mt)
		if x.arr(st, dn, arrSort(SRef, arrSort(ks, SBool))) == fr.iterDom[r] {
			ln := Ite(Eq(mv.Ref, NilRef), "0", x.mapCard(st, mv))
			x.assumeAt(st, And("(<= 0 "+nv.T+")", Implies(Not(ok), Eq(nv.T, ln)), Implies(ok, "(< "+nv.T+" "+ln+")")))
		}
		st.ghost[g+"#n"] = intV(m.def("nvis", SInt, Ite(ok, "(+ "+nv.T+" 1)", nv.T)))
	}
	kv := x.keyValue(mt.Key(), k)
	if kt := tt.At(1).Type(); kt != nil {
		kv = x.retype(kv, kt)
	}
	st.binds["$$key!"+g] = kv
	var vv Value = x.mapValAt(st, mv, k)
	if isInvalid(tt.At(2).Type()) {
		vv = OpaqueV{T: "0", Typ: types.Typ[types.Int]}
	}
	if isInvalid(tt.At(1).Type()) {
		kv = OpaqueV{T: "0", Typ: types.Typ[types.Int]}
	}
	return TupleV{E: []Value{okV, kv, vv}}
}

func isInvalid(t types.Type) bool {
	b, ok := t.(*types.Basic)
	return ok && b.Kind() == types.Invalid
}

// ---------- slices ----------

func (x *Exec) makeSlice(fr *Frame, st *State, ins *ssa.MakeSlice) Value {
	ln := x.intTerm(x.val(fr, st, ins.Len))
	cp := x.intTerm(x.val(fr, st, ins.Cap))
	if x.sweep {
		x.safe(fr, st, And("(<= 0 "+ln+")", "(<= "+ln+" "+cp+")"), "makeslice", ins.Pos(), "make: 0 <= len <= cap")
	}
	arr := x.newRefIn(fr, st, "mkslice")
	sv := SliceV{Arr: arr, Off: "0", Len: ln, Cap: cp, Typ: ins.Type()}
	elem := ins.Type().Underlying().(*types.Slice).Elem()
	if n, err := strconv.Atoi(cp); err == nil && n <= 8 && structOf(elem) != nil {
		x.zeroArray(st, elem, arr, n)
	} else {
		x.zeroElems(st, elem, arr)
	}
	return sv
}

// zeroArray zero-initialises the n elements of a freshly allocated array.
func (x *Exec) zeroArray(st *State, elem types.Type, arr Term, n int) {
	if structOf(elem) == nil {
		x.zeroElems(st, elem, arr)
		return
	}
	z := x.smt.zeroValue(elem)
	for k := 0; k < n; k++ {
		x.storeAt(st, x.elemRef(elem, arr, IntLit(int64(k))), elem, z, 0)
	}
}

func (x *Exec) zeroElems(st *State, elem types.Type, arr Term) {
	m := x.smt
	if structOf(elem) != nil {
		x.note("zero-initialised struct elements left unconstrained")
		return
	}
	zs := flatten(m.zeroValue(elem))
	for i, l := range leafShape(elem) {
		name := "E." + typeName(elem) + l.suffix
		s := arrSort(SRef, arrSort(SInt, l.sort))
		var za Term
		if l.sort == SStr {
			// no literal of the uninterpreted string sort exists for (as const ...): cvc5
			// wants a value there, so the all-"" array is a constant with a defining fact
			za = m.fresh("zeros", arrSort(SInt, l.sort))
			m.assume("(forall ((i Int)) (! (= (select " + za + " i) " + zs[i] + ") :pattern ((select " + za + " i))))")
		} else {
			za = "((as const " + arrSort(SInt, l.sort) + ") " + constLit(zs[i]) + ")"
		}
		x.setArr(st, name, s, Store(x.arr(st, name, s), arr, za))
	}
}

func (x *Exec) sliceOp(fr *Frame, st *State, ins *ssa.Slice) Value {
	m := x.smt
	base := x.val(fr, st, ins.X)
	get := func(v ssa.Value, def Term) Term {
		if v == nil {
			return def
		}
		return x.intTerm(x.val(fr, st, v))
	}
	switch b := base.(type) {
	case SliceV:
		lo := get(ins.Low, "0")
		hi := get(ins.High, b.Len)
		mx := get(ins.Max, b.Cap)
		if x.sweep {
			x.safe(fr, st, And("(<= 0 "+lo+")", "(<= "+lo+" "+hi+")", "(<= "+hi+" "+mx+")", "(<= "+mx+" "+b.Cap+")"), "slice", ins.Pos(), "slice bounds")
		}
		x.assumeAt(st, And("(<= 0 "+lo+")", "(<= "+lo+" "+hi+")", "(<= "+hi+" "+b.Cap+")"))
		return SliceV{Arr: b.Arr, Off: m.def("off", SInt, addT(b.Off, lo)), Len: m.def("len", SInt, subT(hi, lo)), Cap: m.def("cap", SInt, subT(mx, lo)), Typ: ins.Type()}
	case PtrV:
		at, ok := b.Elem.Underlying().(*types.Array)
		if ok && b.Cell == nil {
			n := IntLit(at.Len())
			lo := get(ins.Low, "0")
			hi := get(ins.High, n)
			return SliceV{Arr: b.Ref, Off: lo, Len: m.def("len", SInt, subT(hi, lo)), Cap: m.def("cap", SInt, subT(n, lo)), Typ: ins.Type()}
		}
	case Scalar:
		if b.Sort == SStr {
			lo := get(ins.Low, "0")
			hi := get(ins.High, App("strlen", b.T))
			if x.sweep {
				x.safe(fr, st, And("(<= 0 "+lo+")", "(<= "+lo+" "+hi+")", "(<= "+hi+" "+App("strlen", b.T)+")"), "slice", ins.Pos(), "string slice bounds")
			}
			f := m.fun("str.sub", []string{SStr, SInt, SInt}, SStr)
			r := App(f, b.T, lo, hi)
			x.assumeAt(st, Implies(And("(<= 0 "+lo+")", "(<= "+lo+" "+hi+")"), Eq(App("strlen", r), subT(hi, lo))))
			return Scalar{T: m.def("sub", SStr, r), Sort: SStr, Typ: ins.Type()}
		}
	}
	x.note("Slice on unsupported base")
	return m.freshValue(ins.Type(), "slice")
}

// sliceIdx is the position of element i of a slice with offset off in its backing array.
// For struct elements (addressed by reference terms) a non-zero offset is kept behind the
// function symbol sidx so that quantified facts over s[j] instantiate by syntactic matching.
func (x *Exec) sliceIdx(off, i Term) Term {
	if off == "0" {
		return i
	}
	m := x.smt
	f := m.fun("sidx", []string{SInt, SInt}, SInt)
	m.axiom("ax:sidx", "(forall ((o Int) (j Int)) (! (= (sidx o j) (+ o j)) :pattern ((sidx o j))))")
	return App(f, off, i)
}

func subT(a, b Term) Term {
	if b == "0" {
		return a
	}
	return "(- " + a + " " + b + ")"
}

// elemLoad reads element i (relative to the slice) of sv.
func (x *Exec) elemLoad(st *State, sv SliceV, i Term) Value {
	elem := sv.Typ.Underlying().(*types.Slice).Elem()
	return x.load(st, x.elemAddr(elem, sv.Arr, x.sliceIdx(sv.Off, i)))
}

// appendOp models append(s, xs...). The result has a fresh backing array (aliasing through spare
// capacity is not modelled).
func (x *Exec) appendOp(fr *Frame, st *State, s, xs Value, rt types.Type, xsLen int) Value {
	m := x.smt
	sv, ok := s.(SliceV)
	if !ok {
		x.note("append on non-slice")
		return m.freshValue(rt, "app")
	}
	elem := rt.Underlying().(*types.Slice).Elem()
	var xv SliceV
	switch v := xs.(type) {
	case SliceV:
		xv = v
	case Scalar: // append([]byte, string...)
		x.note("append of string bytes abstracted")
		r := m.freshValue(rt, "app").(SliceV)
		x.assumeAt(st, Eq(r.Len, "(+ "+sv.Len+" "+App("strlen", v.T)+")"))
		return r
	default:
		x.note("append with unsupported argument")
		return m.freshValue(rt, "app")
	}
	arr := x.newRefIn(fr, st, "append")
	nl := m.def("len", SInt, "(+ "+sv.Len+" "+xv.Len+")")
	cp := m.fresh("cap", SInt)
	m.assume("(>= " + cp + " " + nl + ")")
	res := SliceV{Arr: arr, Off: "0", Len: nl, Cap: cp, Typ: rt}
	if structOf(elem) != nil {
		// element objects: copy each leaf field with quantified facts
		x.copyStructElems(st, elem, sv, xv, arr)
		return res
	}
	for _, l := range leafShape(elem) {
		name := "E." + typeName(elem) + l.suffix
		s2 := arrSort(SRef, arrSort(SInt, l.sort))
		E := x.arr(st, name, s2)
		var na Term
		if sv.Off == "0" && xsLen >= 0 && xsLen <= 4 {
			na = Select(E, sv.Arr)
			for k := 0; k < xsLen; k++ {
				na = Store(na, addT(sv.Len, IntLit(int64(k))), Select(Select(E, xv.Arr), addT(xv.Off, IntLit(int64(k)))))
			}
		} else {
			fa := m.fresh("appended", arrSort(SInt, l.sort))
			// a declared constant (not a definition), so that it may appear in a pattern
			old := m.fresh("olda", arrSort(SInt, l.sort))
			m.assume(Eq(old, Select(E, sv.Arr)))
			oldx := m.def("oldx", arrSort(SInt, l.sort), Select(E, xv.Arr))
			m.assume(fmt.Sprintf("(forall ((j Int)) (! (=> (and (<= 0 j) (< j %s)) (= (select %s j) (select %s %s))) :pattern ((select %s j)) :pattern ((select %s %s))))", sv.Len, fa, old, x.sliceIdx(sv.Off, "j"), fa, old, x.sliceIdx(sv.Off, "j")))
			if xsLen >= 0 && xsLen <= 4 {
				// a known small number of appended values: ground facts instead of a quantifier
				for k := 0; k < xsLen; k++ {
					m.assume(Eq(Select(fa, addT(sv.Len, IntLit(int64(k)))), Select(oldx, x.sliceIdx(xv.Off, IntLit(int64(k))))))
				}
			} else {
				m.assume(fmt.Sprintf("(forall ((j Int)) (=> (and (<= 0 j) (< j %s)) (= (select %s (+ %s j)) (select %s (+ %s j)))))", xv.Len, fa, sv.Len, oldx, xv.Off))
			}
			na = fa
		}
		x.setArr(st, name, s2, Store(E, arr, na))
	}
	return res
}

func (x *Exec) copyStructElems(st *State, elem types.Type, sv, xv SliceV, arr Term) {
	m := x.smt
	type fieldArr struct {
		name, sort string
		path       []int
	}
	var fas []fieldArr
	var rec func(t types.Type, path []int, depth int)
	count := 0
	rec = func(t types.Type, path []int, depth int) {
		s := structOf(t)
		for i := 0; i < s.NumFields(); i++ {
			ft := s.Field(i).Type()
			p := append(append([]int(nil), path...), i)
			if structOf(ft) != nil && depth < 5 {
				rec(ft, p, depth+1)
				continue
			}
			for _, l := range leafShape(ft) {
				fas = append(fas, fieldArr{fieldArrayName(t, s.Field(i)) + l.suffix, arrSort(SRef, l.sort), p})
				count++
			}
		}
	}
	rec(elem, nil, 0)
	if count > 60 {
		x.note("append of large struct elements: contents left unconstrained")
		return
	}
	refAt := func(a, i Term, path []int) Term {
		r := x.elemRef(elem, a, i)
		t := elem
		for _, f := range path[:len(path)-1] {
			r = x.fldRef(t, f, r)
			t = structOf(t).Field(f).Type()
		}
		return r
	}
	svLen := m.fresh("alen", SInt)
	m.assume(Eq(svLen, sv.Len))
	svOff := m.fresh("aoff", SInt)
	m.assume(Eq(svOff, sv.Off))
	// The backing array is fresh: nothing has been said about the heap at its element
	// references yet, so the copy is stated as facts about the current heap there.
	for _, fa := range fas {
		A := x.arr(st, fa.name, fa.sort)
		newRef := refAt(arr, "j", fa.path)
		m.assume(fmt.Sprintf("(forall ((j Int)) (! (=> (and (<= 0 j) (< j %s)) (= (select %s %s) (select %s %s))) :pattern ((elem %s j))))",
			svLen, A, newRef, A, refAt(sv.Arr, x.sliceIdx(svOff, "j"), fa.path), arr))
		if xv.Len == "1" || xv.Len == IntLit(1) {
			m.assume(Eq(Select(A, refAt(arr, svLen, fa.path)), Select(A, refAt(xv.Arr, xv.Off, fa.path))))
		} else {
			// stated over the target position k so that it instantiates by matching (elem new k)
			xvLen := m.fresh("xlen", SInt)
			m.assume(Eq(xvLen, xv.Len))
			xvOff := m.fresh("xoff", SInt)
			m.assume(Eq(xvOff, xv.Off))
			newRef2 := refAt(arr, "k", fa.path)
			m.assume(fmt.Sprintf("(forall ((k Int)) (! (=> (and (<= %s k) (< k (+ %s %s))) (= (select %s %s) (select %s %s))) :pattern ((elem %s k))))",
				svLen, svLen, xvLen, A, newRef2, A, refAt(xv.Arr, x.sliceIdx(xvOff, "(- k "+svLen+")"), fa.path), arr))
		}
	}
}

// ---------- interfaces ----------

func (x *Exec) makeIface(st *State, v Value, from, to types.Type) Value {
	m := x.smt
	tag := x.typeID(from)
	iv := IfaceV{Tag: tag, Typ: to, Dyn: from}
	switch vv := v.(type) {
	case PtrV:
		iv.Data = x.ptrTerm(vv)
	case MapV:
		iv.Data = vv.Ref
	case FuncV:
		iv.Data = vv.T
	case OpaqueV:
		iv.Data = vv.T
	default:
		sh := leafShape(from)
		ls := flatten(v)
		if len(sh) == 1 && len(ls) == 1 {
			switch sh[0].sort {
			case SInt:
				iv.Data = "(boxi " + ls[0] + ")"
			case SStr:
				iv.Data = "(boxs " + ls[0] + ")"
			case SBool:
				iv.Data = "(boxb " + ls[0] + ")"
			case SReal:
				iv.Data = "(boxr " + ls[0] + ")"
			default:
				iv.Data = ls[0]
			}
		} else {
			d := x.newRef("boxed")
			for i, l := range sh {
				if i < len(ls) {
					inv := m.fun(fmt.Sprintf("unbox.%s%s", typeName(from), l.suffix), []string{SRef}, l.sort)
					m.assume(Eq(App(inv, d), ls[i]))
				}
			}
			iv.Data = d
		}
	}
	return iv
}

func (x *Exec) unbox(data Term, t types.Type) Value {
	m := x.smt
	switch t.Underlying().(type) {
	case *types.Pointer, *types.Map, *types.Signature, *types.Chan:
		v, _ := unflatten(t, []Term{data})
		return v
	}
	sh := leafShape(t)
	ts := make([]Term, len(sh))
	if len(sh) == 1 {
		switch sh[0].sort {
		case SInt:
			ts[0] = "(ubi " + data + ")"
		case SStr:
			ts[0] = "(ubs " + data + ")"
		case SBool:
			ts[0] = "(ubb " + data + ")"
		case SReal:
			ts[0] = "(ubr " + data + ")"
		default:
			ts[0] = data
		}
	} else {
		for i, l := range sh {
			inv := m.fun(fmt.Sprintf("unbox.%s%s", typeName(t), l.suffix), []string{SRef}, l.sort)
			ts[i] = App(inv, data)
		}
	}
	v, _ := unflatten(t, ts)
	return v
}

func (x *Exec) implementsTerm(tag Term, iface types.Type) Term {
	f := x.smt.fun("implements."+typeName(iface), []string{SInt}, SBool)
	return And(Not(Eq(tag, "0")), App(f, tag))
}

func (x *Exec) typeAssert(fr *Frame, st *State, ins *ssa.TypeAssert) Value {
	m := x.smt
	v := x.val(fr, st, ins.X)
	iv, ok := v.(IfaceV)
	if !ok {
		x.note("TypeAssert on non-interface value")
		return m.freshValue(ins.Type(), "ta")
	}
	var okT Term
	var res Value
	if _, isIface := ins.AssertedType.Underlying().(*types.Interface); isIface {
		okT = x.implementsTerm(iv.Tag, ins.AssertedType)
		if iv.Dyn != nil {
			if types.Implements(iv.Dyn, ins.AssertedType.Underlying().(*types.Interface)) {
				okT = "true"
			} else {
				okT = "false"
			}
		}
		res = IfaceV{Tag: iv.Tag, Data: iv.Data, Typ: ins.AssertedType, Dyn: iv.Dyn}
	} else {
		okT = Eq(iv.Tag, x.typeID(ins.AssertedType))
		res = x.unbox(iv.Data, ins.AssertedType)
	}
	okT = m.def("taok", SBool, okT)
	if ins.CommaOk {
		z := m.zeroValue(ins.AssertedType)
		return TupleV{E: []Value{m.iteValue(okT, res, z), Scalar{T: okT, Sort: SBool, Typ: types.Typ[types.Bool]}}}
	}
	if x.sweep {
		x.safe(fr, st, okT, "typeassert", ins.Pos(), "type assertion holds")
	}
	x.assumeAt(st, okT)
	return res
}

func (x *Exec) convert(fr *Frame, st *State, ins *ssa.Convert) Value {
	m := x.smt
	v := x.val(fr, st, ins.X)
	from, to := ins.X.Type().Underlying(), ins.Type().Underlying()
	fb, ok1 := from.(*types.Basic)
	tb, ok2 := to.(*types.Basic)
	if ok1 && ok2 {
		s, _ := v.(Scalar)
		fs, ts := basicSort(fb), basicSort(tb)
		switch {
		case fs == ts:
			if fs == SInt && fb.Kind() != tb.Kind() {
				x.note("integer conversion treated as mathematical (no wrap-around)")
			}
			return Scalar{T: s.T, Sort: ts, Typ: ins.Type()}
		case fs == SInt && ts == SReal:
			return Scalar{T: "(to_real " + s.T + ")", Sort: SReal, Typ: ins.Type()}
		case fs == SReal && ts == SInt:
			x.note("float->int conversion treated as truncation of a real")
			return Scalar{T: m.def("trunc", SInt, Ite("(>= "+s.T+" 0.0)", "(to_int "+s.T+")", "(- (to_int (- "+s.T+")))")), Sort: SInt, Typ: ins.Type()}
		case fs == SInt && ts == SStr:
			f := m.fun("str.fromrune", []string{SInt}, SStr)
			return Scalar{T: App(f, s.T), Sort: SStr, Typ: ins.Type()}
		}
	}
	// string <-> []byte / []rune
	if ok1 && basicSort(fb) == SStr {
		if _, ok := to.(*types.Slice); ok {
			r := m.freshValue(ins.Type(), "bytes").(SliceV)
			if s, ok := v.(Scalar); ok {
				f := m.fun("str.bytes", []string{SStr}, SRef)
				m.assume(Eq(r.Arr, App(f, s.T)))
				m.assume(Eq(r.Len, App("strlen", s.T)))
			}
			return r
		}
	}
	if ok2 && basicSort(tb) == SStr {
		if sv, ok := v.(SliceV); ok {
			f := m.fun("str.frombytes", []string{SRef, SInt, SInt}, SStr)
			t := App(f, sv.Arr, sv.Off, sv.Len)
			return Scalar{T: t, Sort: SStr, Typ: ins.Type()}
		}
	}
	x.note("conversion abstracted: " + typeName(ins.X.Type()) + " -> " + typeName(ins.Type()))
	return m.freshValue(ins.Type(), "conv")
}

// ---------- safety obligations (sweep) ----------

func (x *Exec) safeNonNil(fr *Frame, st *State, p PtrV, pos token.Pos, what string) {
	if p.Cell != nil {
		return
	}
	constructed := strings.HasPrefix(p.Ref, "(base ") || strings.HasPrefix(p.Ref, "(fld ") || strings.HasPrefix(p.Ref, "(elem ")
	if x.sweep && fr.depth == 0 && !constructed {
		x.safe(fr, st, Not(Eq(p.Ref, NilRef)), "nil", pos, "nil dereference ("+what+")")
	}
	if !constructed {
		x.assumeAt(st, Not(Eq(p.Ref, NilRef)))
	}
}

func (x *Exec) safe(fr *Frame, st *State, goal Term, kind string, pos token.Pos, what string) {
	if fr.depth > 0 {
		return
	}
	ps := x.pos(pos)
	label := x.exprTextAt(fr, pos)
	if label == "" {
		label = "expr"
	}
	o := &Obligation{Kind: "safe", Fn: x.fnKey, Anchor: kind, Label: label, PC: st.pc, Goal: goal, Src: what + ": " + label, Pos: ps}
	x.addObligation(o)
}

// constLit spells a zero value so that every solver accepts it inside (as const ...):
// cvc5 wants a value there, not a defined name.
func constLit(t Term) Term {
	if t == NilRef {
		return "(base 0)"
	}
	return t
}
