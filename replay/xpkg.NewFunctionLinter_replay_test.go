package xpkg

// Replay concretiser for the obligations of xpkg.NewFunctionLinter (C15): a Function package
// that carries kinds the package specification does not allow for functions must not lint.
// The package stream is parsed with the real meta and object schemes.

import (
	"context"
	"io"
	"strings"
	"testing"

	"github.com/crossplane/crossplane-runtime/pkg/parser"
)

const verifFnPkg = `apiVersion: meta.pkg.crossplane.io/v1
kind: Function
metadata:
  name: function-smuggler
spec: {}
---
apiVersion: apiextensions.crossplane.io/v1
kind: Composition
metadata:
  name: smuggled
spec:
  compositeTypeRef:
    apiVersion: example.org/v1
    kind: XThing
  mode: Pipeline
  pipeline: []
---
apiVersion: admissionregistration.k8s.io/v1
kind: MutatingWebhookConfiguration
metadata:
  name: smuggled-webhook
webhooks: []
`

func TestVerifReplay(t *testing.T) {
	ms, _ := BuildMetaScheme()
	os, _ := BuildObjectScheme()
	pkg, err := parser.New(ms, os).Parse(context.Background(), io.NopCloser(strings.NewReader(verifFnPkg)))
	if err != nil {
		t.Fatalf("parse: %v", err)
	}
	if err := NewFunctionLinter().Lint(pkg); err == nil {
		t.Fatalf("VERIF-REPRODUCED: a Function package carrying a Composition and a MutatingWebhookConfiguration (meta=%d objects=%d) lints clean; its objects would be established", len(pkg.GetMeta()), len(pkg.GetObjects()))
	} else {
		t.Logf("rejected: %v", err)
	}
}
