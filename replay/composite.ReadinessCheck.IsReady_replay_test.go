package composite

// verif:search
// Replay concretiser for obligations of (composite.ReadinessCheck).IsReady (C05): every check
// type against resources whose field holds the configured value, a value that merely contains
// it, a different value, or nothing: ready iff the check's documented condition holds.

import (
	"fmt"
	"testing"

	corev1 "k8s.io/api/core/v1"

	xpv1 "github.com/crossplane/crossplane-runtime/apis/common/v1"
	"github.com/crossplane/crossplane-runtime/pkg/fieldpath"
	"github.com/crossplane/crossplane-runtime/pkg/resource/unstructured/composed"
)

func TestVerifReplay(t *testing.T) {
	ps := func(s string) *string { return &s }
	pi := func(i int64) *int64 { return &i }
	n := 0
	// MatchString
	for _, val := range []any{"Ready", "NotReady", "ReadyNow", "ready", "", nil, int64(3)} {
		n++
		cd := composed.New()
		if val != nil {
			_ = fieldpath.Pave(cd.Object).SetValue("status.state", val)
		}
		p, _ := fieldpath.PaveObject(cd)
		got, err := ReadinessCheck{Type: ReadinessCheckTypeMatchString, FieldPath: ps("status.state"), MatchString: ps("Ready")}.IsReady(p, cd)
		want := val == "Ready"
		if err == nil && got != want {
			t.Fatalf("VERIF-REPRODUCED: MatchString \"Ready\" against status.state=%#v: ready=%v, want %v (string equality)", val, got, want)
		}
	}
	// MatchInteger
	for _, val := range []any{int64(3), int64(30), int64(0), nil} {
		n++
		cd := composed.New()
		if val != nil {
			_ = fieldpath.Pave(cd.Object).SetValue("status.replicas", val)
		}
		p, _ := fieldpath.PaveObject(cd)
		got, err := ReadinessCheck{Type: ReadinessCheckTypeMatchInteger, FieldPath: ps("status.replicas"), MatchInteger: pi(3)}.IsReady(p, cd)
		want := val == int64(3)
		if err == nil && got != want {
			t.Fatalf("VERIF-REPRODUCED: MatchInteger 3 against status.replicas=%#v: ready=%v, want %v", val, got, want)
		}
	}
	// MatchTrue / MatchFalse / NonEmpty
	for _, val := range []any{true, false, nil} {
		for _, typ := range []ReadinessCheckType{ReadinessCheckTypeMatchTrue, ReadinessCheckTypeMatchFalse, ReadinessCheckTypeNonEmpty} {
			n++
			cd := composed.New()
			if val != nil {
				_ = fieldpath.Pave(cd.Object).SetValue("status.ok", val)
			}
			p, _ := fieldpath.PaveObject(cd)
			got, err := ReadinessCheck{Type: typ, FieldPath: ps("status.ok")}.IsReady(p, cd)
			want := map[ReadinessCheckType]bool{ReadinessCheckTypeMatchTrue: val == true, ReadinessCheckTypeMatchFalse: val == false, ReadinessCheckTypeNonEmpty: val != nil}[typ]
			if err == nil && got != want {
				t.Fatalf("VERIF-REPRODUCED: %s against status.ok=%#v: ready=%v, want %v", typ, val, got, want)
			}
		}
	}
	// MatchCondition
	for _, have := range []xpv1.Condition{xpv1.Available(), xpv1.Creating(), {Type: "Other", Status: corev1.ConditionTrue}} {
		for _, wantStatus := range []corev1.ConditionStatus{corev1.ConditionTrue, corev1.ConditionFalse} {
			n++
			cd := composed.New()
			cd.SetConditions(have)
			p, _ := fieldpath.PaveObject(cd)
			got, err := ReadinessCheck{Type: ReadinessCheckTypeMatchCondition, MatchCondition: &MatchConditionReadinessCheck{Type: xpv1.TypeReady, Status: wantStatus}}.IsReady(p, cd)
			want := have.Type == xpv1.TypeReady && have.Status == wantStatus
			if err == nil && got != want {
				t.Fatalf("VERIF-REPRODUCED: MatchCondition Ready=%s against condition %s=%s: ready=%v, want %v", wantStatus, have.Type, have.Status, got, want)
			}
		}
	}
	if got, err := (ReadinessCheck{Type: ReadinessCheckTypeNone}).IsReady(nil, composed.New()); err != nil || !got {
		t.Fatalf("VERIF-REPRODUCED: check of type None: ready=%v err=%v", got, err)
	}
	t.Log(fmt.Sprintf("searched %d (check, resource) combinations: contract holds on all of them", n))
}
