package v1

// verif:search
// Replay concretiser for obligations of (*CompositeResourceDefinition).ValidateUpdate (C11): each
// immutable name (group, composite kind and plural, claim kind and plural) is changed in turn,
// on an XRD that is live or being deleted (finalizers keep it around while the controllers still
// derive CRDs from it); every such change must be rejected, and an update that changes none of
// them accepted.

import (
	"fmt"
	"testing"
	"time"

	extv1 "k8s.io/apiextensions-apiserver/pkg/apis/apiextensions/v1"
	metav1 "k8s.io/apimachinery/pkg/apis/meta/v1"
)

func TestVerifReplay(t *testing.T) {
	mk := func() *CompositeResourceDefinition {
		return &CompositeResourceDefinition{
			ObjectMeta: metav1.ObjectMeta{Name: "xthings.example.org", Finalizers: []string{"defined.apiextensions.crossplane.io"}},
			Spec: CompositeResourceDefinitionSpec{
				Group:      "example.org",
				Names:      extv1.CustomResourceDefinitionNames{Kind: "XThing", Plural: "xthings"},
				ClaimNames: &extv1.CustomResourceDefinitionNames{Kind: "Thing", Plural: "things"},
				Versions:   []CompositeResourceDefinitionVersion{{Name: "v1", Served: true, Referenceable: true}},
			},
		}
	}
	changes := map[string]func(*CompositeResourceDefinition){
		"nothing":                func(*CompositeResourceDefinition) {},
		"spec.group":             func(x *CompositeResourceDefinition) { x.Spec.Group = "other.org" },
		"spec.names.kind":        func(x *CompositeResourceDefinition) { x.Spec.Names.Kind = "XOther" },
		"spec.names.plural":      func(x *CompositeResourceDefinition) { x.Spec.Names.Plural = "xothers" },
		"spec.claimNames.kind":   func(x *CompositeResourceDefinition) { x.Spec.ClaimNames.Kind = "Other" },
		"spec.claimNames.plural": func(x *CompositeResourceDefinition) { x.Spec.ClaimNames.Plural = "others" },
	}
	n := 0
	for name, change := range changes {
		for _, deleting := range []bool{false, true} {
			n++
			old, upd := mk(), mk()
			if deleting {
				now := metav1.NewTime(time.Unix(1000, 0))
				old.DeletionTimestamp, upd.DeletionTimestamp = &now, &now
			}
			change(upd)
			_, errs := upd.ValidateUpdate(old)
			if name == "nothing" && len(errs) != 0 {
				t.Fatalf("VERIF-REPRODUCED: an update that changes no immutable field (being deleted=%v) is rejected: %v", deleting, errs)
			}
			if name != "nothing" && len(errs) == 0 {
				t.Fatalf("VERIF-REPRODUCED: an update that changes %s (XRD being deleted=%v, finalizers still present) is accepted", name, deleting)
			}
		}
	}
	t.Log(fmt.Sprintf("searched %d updates: contract holds on all of them", n))
}
