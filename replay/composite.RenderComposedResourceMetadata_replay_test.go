package composite

// verif:search
// Replay concretiser for obligations of composite.RenderComposedResourceMetadata (C01, C03): a
// rendered resource that carries no resource-name annotation, the right one, or another one
// (copied from another resource / pasted from a live object), named or not. Afterwards it is
// annotated with the resource name it was rendered for, labelled like the XR, and still has its
// name.

import (
	"testing"

	"github.com/crossplane/crossplane-runtime/pkg/resource/fake"

	"github.com/crossplane/crossplane/internal/xcrd"
)

func TestVerifReplay(t *testing.T) {
	n := 0
	for _, have := range []string{"", "replica", "primary"} {
		for _, name := range []string{"", "xr-abcde"} {
			n++
			xr := &fake.Composite{}
			xr.SetUID("xr-uid")
			xr.SetLabels(map[string]string{xcrd.LabelKeyNamePrefixForComposed: "xr", xcrd.LabelKeyClaimName: "claim", xcrd.LabelKeyClaimNamespace: "ns"})
			cd := &fake.Composed{}
			cd.SetName(name)
			if have != "" {
				cd.SetAnnotations(map[string]string{AnnotationKeyCompositionResourceName: have})
			}
			if err := RenderComposedResourceMetadata(cd, xr, "replica"); err != nil {
				t.Fatal(err)
			}
			if got := cd.GetAnnotations()[AnnotationKeyCompositionResourceName]; got != "replica" {
				t.Fatalf("VERIF-REPRODUCED: a resource rendered for the desired resource \"replica\" that came in annotated %q leaves annotated %q: it is observed under the wrong name on the next reconcile and composed again", have, got)
			}
			if cd.GetName() != name {
				t.Fatalf("VERIF-REPRODUCED: rendering metadata renamed the resource from %q to %q", name, cd.GetName())
			}
			if cd.GetLabels()[xcrd.LabelKeyNamePrefixForComposed] != "xr" || cd.GetLabels()[xcrd.LabelKeyClaimName] != "claim" || cd.GetLabels()[xcrd.LabelKeyClaimNamespace] != "ns" {
				t.Fatalf("VERIF-REPRODUCED: rendered resource is not labelled like its XR: %v", cd.GetLabels())
			}
		}
	}
	t.Logf("searched %d (annotation, name) pairs: contract holds on all of them", n)
}
