package version

// verif:search
// Replay concretiser for obligations of (*Versioner).InConstraints (C15): release and pre-release
// running versions against constraints around them. The answer is the semantic-version check of
// the constraint against the running version as it is.

import (
	"testing"

	"github.com/Masterminds/semver"
)

func TestVerifReplay(t *testing.T) {
	running := []string{"v1.18.0", "v1.18.0-rc.1", "v1.18.0-rc.0.112.g1a2b3c4", "v1.17.3", "v2.0.0-0"}
	constraints := []string{">=v1.18.0", ">=v1.17.0", ">v1.17.5, >=v1.18.0", ">=v1.18.0-0", "<v1.18.0", ">=v2.0.0"}
	n := 0
	for _, rv := range running {
		for _, c := range constraints {
			n++
			v := &Versioner{version: rv}
			got, err := v.InConstraints(c)
			if err != nil {
				t.Fatal(err)
			}
			want := semver.MustParse(rv)
			wc, _ := semver.NewConstraint(c)
			if got != wc.Check(want) {
				t.Fatalf("VERIF-REPRODUCED: Crossplane %s against the package constraint %q: InConstraints = %v, the constraint says %v (a package this version does not satisfy would be established)", rv, c, got, wc.Check(want))
			}
		}
	}
	t.Logf("searched %d (running version, constraint) pairs: contract holds on all of them", n)
}
