package composite

// verif:search
// Replay concretiser for obligations of composite.ExtractConnectionDetails (C09): every list of
// at most 2 extraction configs drawn from secret-key configs (name equal to or different from
// the key, key present or missing in the composed resource's connection details), a fixed value
// and a field path, against connection details over {user, password, adminPassword}. A detail
// taken from a connection secret key carries the value of exactly that key and is absent when
// the key is absent; only configured names appear.

import (
	"fmt"
	"reflect"
	"testing"

	"github.com/crossplane/crossplane-runtime/pkg/reconciler/managed"
	"github.com/crossplane/crossplane-runtime/pkg/resource/unstructured/composed"
)

func TestVerifReplay(t *testing.T) {
	s := func(v string) *string { return &v }
	cfgs := []ConnectionDetailExtractConfig{
		{Type: ConnectionDetailTypeFromConnectionSecretKey, Name: "user", FromConnectionSecretKey: s("user")},
		{Type: ConnectionDetailTypeFromConnectionSecretKey, Name: "password", FromConnectionSecretKey: s("adminPassword")},
		{Type: ConnectionDetailTypeFromConnectionSecretKey, Name: "adminPassword", FromConnectionSecretKey: s("password")},
		{Type: ConnectionDetailTypeFromValue, Name: "fixed", Value: s("v")},
		{Type: ConnectionDetailTypeFromValue, Name: "password", Value: s("fixed-password")},
		{Type: ConnectionDetailTypeFromFieldPath, Name: "name", FromFieldPath: s("metadata.name")},
	}
	keys := []string{"user", "password", "adminPassword"}
	n := 0
	var lists [][]int
	lists = append(lists, nil)
	for i := range cfgs {
		lists = append(lists, []int{i})
		for j := range cfgs {
			lists = append(lists, []int{i, j})
		}
	}
	for m := 0; m < 1<<len(keys); m++ {
		data := managed.ConnectionDetails{}
		for i, k := range keys {
			if m&(1<<i) != 0 {
				data[k] = []byte("secret-" + k)
			}
		}
		for _, l := range lists {
			n++
			cd := composed.New()
			cd.SetName("cd")
			var cfg []ConnectionDetailExtractConfig
			want := managed.ConnectionDetails{}
			for _, i := range l {
				c := cfgs[i]
				cfg = append(cfg, c)
				switch c.Type {
				case ConnectionDetailTypeFromConnectionSecretKey:
					if v, ok := data[*c.FromConnectionSecretKey]; ok {
						want[c.Name] = v
					}
				case ConnectionDetailTypeFromValue:
					want[c.Name] = []byte(*c.Value)
				case ConnectionDetailTypeFromFieldPath:
					want[c.Name] = []byte("cd")
				}
			}
			got, err := ExtractConnectionDetails(cd, data, cfg...)
			if err != nil {
				t.Fatalf("VERIF-REPRODUCED: configs=%s details=%v: unexpected error %v", descCfg(cfg), keysOf(data), err)
			}
			if !reflect.DeepEqual(map[string][]byte(got), map[string][]byte(want)) {
				t.Fatalf("VERIF-REPRODUCED: configs=%s composed resource's details=%v: extracted %s, want %s", descCfg(cfg), keysOf(data), show(got), show(want))
			}
		}
	}
	t.Logf("searched %d (details, config list) combinations: contract holds on all of them", n)
}

func descCfg(cfg []ConnectionDetailExtractConfig) string {
	out := ""
	for _, c := range cfg {
		switch c.Type {
		case ConnectionDetailTypeFromConnectionSecretKey:
			out += fmt.Sprintf("[%s <- secret key %s] ", c.Name, *c.FromConnectionSecretKey)
		case ConnectionDetailTypeFromValue:
			out += fmt.Sprintf("[%s <- value %q] ", c.Name, *c.Value)
		case ConnectionDetailTypeFromFieldPath:
			out += fmt.Sprintf("[%s <- field %s] ", c.Name, *c.FromFieldPath)
		}
	}
	return out
}

func keysOf(d managed.ConnectionDetails) []string {
	var out []string
	for _, k := range []string{"user", "password", "adminPassword"} {
		if _, ok := d[k]; ok {
			out = append(out, k)
		}
	}
	return out
}

func show(d managed.ConnectionDetails) string {
	out := "{"
	for _, k := range []string{"user", "password", "adminPassword", "fixed", "name"} {
		if v, ok := d[k]; ok {
			out += fmt.Sprintf("%s=%s ", k, v)
		}
	}
	return out + "}"
}
