package composite

// verif:search
// Replay concretiser for obligations of (*ExistingExtraResourcesFetcher).Fetch (C04): selectors
// by name (present / absent) and by labels (two labels, one label, no label) against a cluster
// of three objects; the function is handed exactly the objects that match.

import (
	"context"
	"fmt"
	"sort"
	"testing"

	kerrors "k8s.io/apimachinery/pkg/api/errors"
	kunstructured "k8s.io/apimachinery/pkg/apis/meta/v1/unstructured"
	"k8s.io/apimachinery/pkg/runtime/schema"
	"sigs.k8s.io/controller-runtime/pkg/client"

	"github.com/crossplane/crossplane-runtime/pkg/test"

	fnv1 "github.com/crossplane/crossplane/apis/apiextensions/fn/proto/v1"
)

func TestVerifReplay(t *testing.T) {
	cluster := map[string]map[string]string{"a": {"tier": "prod", "zone": "x"}, "b": {"tier": "prod", "zone": "y"}, "c": {"tier": "dev"}}
	mk := func(name string) kunstructured.Unstructured {
		u := kunstructured.Unstructured{}
		u.SetAPIVersion("example.org/v1")
		u.SetKind("Foo")
		u.SetName(name)
		u.SetLabels(cluster[name])
		return u
	}
	c := &test.MockClient{
		MockGet: func(_ context.Context, key client.ObjectKey, o client.Object) error {
			if _, ok := cluster[key.Name]; !ok {
				return kerrors.NewNotFound(schema.GroupResource{Resource: "foos"}, key.Name)
			}
			*o.(*kunstructured.Unstructured) = mk(key.Name)
			return nil
		},
		MockList: func(_ context.Context, l client.ObjectList, opts ...client.ListOption) error {
			lo := &client.ListOptions{}
			for _, o := range opts {
				o.ApplyToList(lo)
			}
			ul := l.(*kunstructured.UnstructuredList)
			for _, name := range []string{"a", "b", "c"} {
				u := mk(name)
				if lo.LabelSelector == nil || lo.LabelSelector.Matches(labelsOf(cluster[name])) {
					ul.Items = append(ul.Items, u)
				}
			}
			return nil
		},
	}
	cases := []struct {
		desc  string
		sel   *fnv1.ResourceSelector
		want  []string
		nilOK bool
	}{
		{"by name a", &fnv1.ResourceSelector{ApiVersion: "example.org/v1", Kind: "Foo", Match: &fnv1.ResourceSelector_MatchName{MatchName: "a"}}, []string{"a"}, false},
		{"by name zz (absent)", &fnv1.ResourceSelector{ApiVersion: "example.org/v1", Kind: "Foo", Match: &fnv1.ResourceSelector_MatchName{MatchName: "zz"}}, nil, true},
		{"labels tier=prod,zone=x", &fnv1.ResourceSelector{ApiVersion: "example.org/v1", Kind: "Foo", Match: &fnv1.ResourceSelector_MatchLabels{MatchLabels: &fnv1.MatchLabels{Labels: map[string]string{"tier": "prod", "zone": "x"}}}}, []string{"a"}, false},
		{"labels tier=prod", &fnv1.ResourceSelector{ApiVersion: "example.org/v1", Kind: "Foo", Match: &fnv1.ResourceSelector_MatchLabels{MatchLabels: &fnv1.MatchLabels{Labels: map[string]string{"tier": "prod"}}}}, []string{"a", "b"}, false},
		{"empty label selector (matches every object of the kind)", &fnv1.ResourceSelector{ApiVersion: "example.org/v1", Kind: "Foo", Match: &fnv1.ResourceSelector_MatchLabels{MatchLabels: &fnv1.MatchLabels{}}}, []string{"a", "b", "c"}, false},
	}
	for _, tc := range cases {
		rs, err := NewExistingExtraResourcesFetcher(c).Fetch(context.Background(), tc.sel)
		if err != nil {
			t.Fatalf("VERIF-REPRODUCED: selector %s: unexpected error %v", tc.desc, err)
		}
		var got []string
		for _, it := range rs.GetItems() {
			got = append(got, it.GetResource().GetFields()["metadata"].GetStructValue().GetFields()["name"].GetStringValue())
		}
		sort.Strings(got)
		if fmt.Sprint(got) != fmt.Sprint(tc.want) {
			t.Fatalf("VERIF-REPRODUCED: selector %s over cluster {a:tier=prod,zone=x b:tier=prod,zone=y c:tier=dev}: the function is supplied %v, the matching objects are %v", tc.desc, got, tc.want)
		}
	}
	t.Logf("searched %d selectors: contract holds on all of them", len(cases))
}

type labelsOf map[string]string

func (l labelsOf) Has(k string) bool   { _, ok := l[k]; return ok }
func (l labelsOf) Get(k string) string { return l[k] }
func (l labelsOf) Lookup(k string) (string, bool) {
	v, ok := l[k]
	return v, ok
}
