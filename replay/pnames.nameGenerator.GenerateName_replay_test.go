package names

// verif:search
// Replay concretiser for obligations of (*nameGenerator).GenerateName (C01, C06): the availability
// probe answers NotFound, "exists", or one of several errors (timeouts, throttling, refusal).
// Success always leaves the resource named, with a name whose probe said NotFound; a resource that
// has a name keeps it.

import (
	"context"
	"errors"
	"testing"

	kerrors "k8s.io/apimachinery/pkg/api/errors"
	"k8s.io/apimachinery/pkg/runtime/schema"
	"sigs.k8s.io/controller-runtime/pkg/client"

	"github.com/crossplane/crossplane-runtime/pkg/resource/fake"
	"github.com/crossplane/crossplane-runtime/pkg/test"
)

func TestVerifReplay(t *testing.T) {
	gr := schema.GroupResource{Resource: "things"}
	answers := map[string]error{
		"not found":         kerrors.NewNotFound(gr, "x"),
		"exists":            nil,
		"timeout":           kerrors.NewTimeoutError("slow", 1),
		"server timeout":    kerrors.NewServerTimeout(gr, "get", 1),
		"too many requests": kerrors.NewTooManyRequests("later", 1),
		"internal error":    kerrors.NewInternalError(errors.New("boom")),
		"forbidden":         kerrors.NewForbidden(gr, "x", errors.New("no")),
		"plain error":       errors.New("boom"),
		"deadline":          context.DeadlineExceeded,
	}
	for name, answer := range answers {
		var probed []string
		c := &test.MockClient{MockGet: func(_ context.Context, key client.ObjectKey, _ client.Object) error {
			probed = append(probed, key.Name)
			return answer
		}}
		cd := &fake.Composed{}
		cd.SetGenerateName("xr-")
		err := NewNameGenerator(c).GenerateName(context.Background(), cd)
		if err == nil && cd.GetName() == "" {
			t.Fatalf("VERIF-REPRODUCED: availability probe answers %q: GenerateName reports success but the resource has no name - the caller records an empty reference and the API server picks a name nobody knows", name)
		}
		if err == nil && name != "not found" {
			t.Fatalf("VERIF-REPRODUCED: availability probe answers %q: GenerateName took the name %q although the probe did not say it is free", name, cd.GetName())
		}
		if err == nil && (len(probed) == 0 || probed[len(probed)-1] != cd.GetName()) {
			t.Fatalf("VERIF-REPRODUCED: the name taken (%q) is not the one probed last (%v)", cd.GetName(), probed)
		}
	}
	named := &fake.Composed{}
	named.SetName("already-named")
	named.SetGenerateName("xr-")
	if err := NewNameGenerator(&test.MockClient{MockGet: test.NewMockGetFn(errors.New("boom"))}).GenerateName(context.Background(), named); err != nil || named.GetName() != "already-named" {
		t.Fatalf("VERIF-REPRODUCED: a named resource was renamed to %q (err %v)", named.GetName(), err)
	}
	t.Logf("searched %d probe answers: contract holds on all of them", len(answers))
}
