package xpkg

// verif:search
// Replay concretiser for obligations of xpkg.encode (C15): packages whose objects share names
// across kinds (an XRD and its Composition, as is customary), repeat a kind, or are unique. The
// stream that encode returns parses back to the same meta object and the same objects, in order.

import (
	"bytes"
	"context"
	"fmt"
	"io"
	"testing"

	metav1 "k8s.io/apimachinery/pkg/apis/meta/v1"
	"k8s.io/apimachinery/pkg/runtime"

	"github.com/crossplane/crossplane-runtime/pkg/parser"
)

func TestVerifReplay(t *testing.T) {
	const meta = "apiVersion: meta.pkg.crossplane.io/v1\nkind: Configuration\nmetadata:\n  name: platform\n"
	xrd := func(name string) string {
		return "apiVersion: apiextensions.crossplane.io/v1\nkind: CompositeResourceDefinition\nmetadata:\n  name: " + name + "\nspec:\n  group: example.org\n  names:\n    kind: XThing\n    plural: xthings\n  versions:\n  - name: v1\n    served: true\n    referenceable: true\n"
	}
	comp := func(name string) string {
		return "apiVersion: apiextensions.crossplane.io/v1\nkind: Composition\nmetadata:\n  name: " + name + "\nspec:\n  compositeTypeRef:\n    apiVersion: example.org/v1\n    kind: XThing\n  mode: Pipeline\n  pipeline:\n  - step: s\n    functionRef:\n      name: f\n"
	}
	metaScheme, err := BuildMetaScheme()
	if err != nil {
		t.Fatal(err)
	}
	objScheme, err := BuildObjectScheme()
	if err != nil {
		t.Fatal(err)
	}
	p := parser.New(metaScheme, objScheme)
	ident := func(os []runtime.Object) []string {
		var out []string
		for _, o := range os {
			out = append(out, fmt.Sprintf("%s/%s", o.GetObjectKind().GroupVersionKind().Kind, o.(metav1.Object).GetName()))
		}
		return out
	}
	packages := map[string][]string{
		"xrd and composition share a name": {xrd("xthings.example.org"), comp("xthings.example.org")},
		"two compositions, one xrd":        {xrd("xthings.example.org"), comp("a"), comp("b")},
		"unique names":                     {xrd("xthings.example.org"), comp("xthings-aws")},
		"no objects":                       {},
	}
	for name, objs := range packages {
		y := meta
		for _, o := range objs {
			y += "---\n" + o
		}
		pkg, err := p.Parse(context.Background(), io.NopCloser(bytes.NewBufferString(y)))
		if err != nil {
			t.Fatalf("%s: %v", name, err)
		}
		buf, err := encode(pkg)
		if err != nil {
			t.Fatalf("%s: %v", name, err)
		}
		back, err := p.Parse(context.Background(), io.NopCloser(bytes.NewReader(buf.Bytes())))
		if err != nil {
			t.Fatalf("VERIF-REPRODUCED: %s: the built package does not parse back: %v", name, err)
		}
		if got, want := fmt.Sprint(ident(back.GetObjects())), fmt.Sprint(ident(pkg.GetObjects())); got != want || len(back.GetMeta()) != 1 {
			t.Fatalf("VERIF-REPRODUCED: %s: the package declares the objects %s, the built image holds %s (%d meta objects): a revision installing it establishes something else than the directory declares", name, want, got, len(back.GetMeta()))
		}
	}
	t.Logf("searched %d packages: contract holds on all of them", len(packages))
}
