package watch

// Replay concretiser for obligations of (*watch.GarbageCollector).GarbageCollectWatchesNow (C13).
// Injected with `go test -overlay` by /verif/gowp; reads witness values of the solver model
// from $VERIF_MODEL and drives the real garbage collector with a recording fake engine.

import (
	"context"
	"encoding/json"
	"fmt"
	"os"
	"strconv"
	"testing"

	"k8s.io/apimachinery/pkg/apis/meta/v1/unstructured"
	"k8s.io/apimachinery/pkg/runtime/schema"
	"sigs.k8s.io/controller-runtime/pkg/client"

	"github.com/crossplane/crossplane-runtime/pkg/resource"
	"github.com/crossplane/crossplane-runtime/pkg/test"

	"github.com/crossplane/crossplane/internal/engine"
)

type verifModel struct {
	Obligation string            `json:"obligation"`
	Label      string            `json:"label"`
	Values     map[string]string `json:"values"`
}

func TestVerifReplay(t *testing.T) {
	b, err := os.ReadFile(os.Getenv("VERIF_MODEL"))
	if err != nil {
		t.Skip("no model")
	}
	var m verifModel
	if err := json.Unmarshal(b, &m); err != nil {
		t.Fatal(err)
	}
	n, _ := strconv.Atoi(m.Values["n"])
	if n < 1 {
		n = 1
	}
	if n > 6 {
		n = 6
	}
	xrGVK := schema.GroupVersionKind{Group: "example.org", Version: "v1", Kind: "XThing"}
	var running []engine.WatchID
	var usedRefs []any
	for j := 0; j < n; j++ {
		gvk := schema.GroupVersionKind{Group: "example.org", Version: "v1", Kind: fmt.Sprintf("Composed%d", j)}
		wid := engine.WatchID{Type: engine.WatchTypeComposedResource, GVK: gvk}
		if m.Values[fmt.Sprintf("composed[%d]", j)] != "true" {
			// the controller's own watches: its XR kind and CompositionRevisions
			if j%2 == 0 {
				wid = engine.WatchID{Type: engine.WatchTypeCompositeResource, GVK: xrGVK}
			} else {
				wid = engine.WatchID{Type: engine.WatchTypeCompositionRevision, GVK: schema.GroupVersionKind{Group: "apiextensions.crossplane.io", Version: "v1", Kind: "CompositionRevision"}}
			}
		} else if m.Values[fmt.Sprintf("used[%d]", j)] == "true" {
			usedRefs = append(usedRefs, map[string]any{"apiVersion": "example.org/v1", "kind": gvk.Kind, "name": fmt.Sprintf("cd-%d", j)})
		}
		running = append(running, wid)
	}
	var stopped []engine.WatchID
	e := &MockEngine{
		MockGetWatches: func(string) ([]engine.WatchID, error) { return running, nil },
		MockStopWatches: func(_ context.Context, _ string, ws ...engine.WatchID) (int, error) {
			stopped = append(stopped, ws...)
			return len(ws), nil
		},
		MockGetCached: func() client.Client {
			return &test.MockClient{MockList: test.NewMockListFn(nil, func(o client.ObjectList) error {
				l := o.(*unstructured.UnstructuredList)
				xr := unstructured.Unstructured{Object: map[string]any{"apiVersion": "example.org/v1", "kind": "XThing",
					"metadata": map[string]any{"name": "xr"}, "spec": map[string]any{"resourceRefs": usedRefs}}}
				l.Items = append(l.Items, xr)
				return nil
			})}
		},
	}
	gc := NewGarbageCollector("composite/xthings.example.org", resource.CompositeKind(xrGVK), e)
	err = gc.GarbageCollectWatchesNow(context.Background())
	t.Logf("running=%v stopped=%v err=%v", running, stopped, err)
	for _, w := range stopped {
		if w.Type != engine.WatchTypeComposedResource {
			t.Fatalf("VERIF-REPRODUCED: the watch garbage collector stopped the controller's own %s watch for %s (running=%v)", w.Type, w.GVK, running)
		}
		for _, r := range usedRefs {
			if r.(map[string]any)["kind"] == w.GVK.Kind {
				t.Fatalf("VERIF-REPRODUCED: the watch garbage collector stopped the watch for %s although an XR still references it", w.GVK)
			}
		}
	}
}
