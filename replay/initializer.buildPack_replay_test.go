package initializer

// verif:search
// Replay concretiser for obligations of initializer.buildPack (C20). The solver's model speaks
// about uninterpreted strings; a failing input is looked for in a small pool of image
// references (with and without a registry host, docker.io forms that the registry library
// canonicalises, tag and digest), each installed already or not.

import (
	"testing"

	"github.com/google/go-containerregistry/pkg/name"

	v1 "github.com/crossplane/crossplane/apis/pkg/v1"
	"github.com/crossplane/crossplane/internal/xpkg"
)

func TestVerifReplay(t *testing.T) {
	pool := []string{
		"xpkg.upbound.io/crossplane-contrib/provider-aws:v2.0.0",
		"registry.example.org:5000/org/provider-x@sha256:" + "0123456789abcdef0123456789abcdef0123456789abcdef0123456789abcdef",
		"crossplane-contrib/provider-aws:v2.0.0",
		"docker.io/crossplane/provider-nop:v0.3.0",
		"docker.io/provider-nop",
		"index.docker.io/crossplane/provider-nop:v0.3.0",
	}
	n := 0
	for _, img := range pool {
		for _, installed := range []bool{false, true} {
			n++
			ref, err := name.ParseReference(img, name.WithDefaultRegistry(""))
			if err != nil {
				t.Fatal(err)
			}
			src := xpkg.ParsePackageSourceFromReference(ref)
			pkgMap := map[string]string{}
			if installed {
				// what PackageInstaller.Run records for an installed package with this source
				pkgMap[src] = "my-custom-name"
			}
			p := &v1.Provider{}
			if err := buildPack(p, img, pkgMap); err != nil {
				t.Fatal(err)
			}
			if existing, ok := pkgMap[src]; ok && p.GetName() != existing {
				t.Fatalf("VERIF-REPRODUCED: package with source %q is installed as %q but init would install it again as %q", src, existing, p.GetName())
			}
			if _, ok := pkgMap[src]; !ok && p.GetName() != xpkg.ToDNSLabel(ref.Context().RepositoryStr()) {
				t.Fatalf("VERIF-REPRODUCED: new package %q named %q instead of %q", img, p.GetName(), xpkg.ToDNSLabel(ref.Context().RepositoryStr()))
			}
			if p.GetSource() != img {
				t.Fatalf("VERIF-REPRODUCED: asked to install %q, spec.package is %q (the next start looks the package up by the requested image and does not find it)", img, p.GetSource())
			}
			// the next start indexes the installed package by the source it reads back
			ref2, err := name.ParseReference(p.GetSource(), name.WithDefaultRegistry(""))
			if err != nil {
				t.Fatalf("VERIF-REPRODUCED: spec.package %q does not parse: %v", p.GetSource(), err)
			}
			if back := xpkg.ParsePackageSourceFromReference(ref2); back != src {
				t.Fatalf("VERIF-REPRODUCED: %q is installed with spec.package %q, which the next start indexes as %q, not %q: it installs the package a second time", img, p.GetSource(), back, src)
			}
		}
	}
	t.Logf("searched %d (image, installed) pairs: contract holds on all of them", n)
}
