package initializer

// Replay concretiser for obligations of initializer.buildPack (C20).
// The solver's model speaks about uninterpreted strings; it is realised from a small pool of
// image references: with a registry host the repository string differs from the package
// source, without one they coincide.

import (
	"encoding/json"
	"os"
	"testing"

	"github.com/google/go-containerregistry/pkg/name"

	v1 "github.com/crossplane/crossplane/apis/pkg/v1"
	"github.com/crossplane/crossplane/internal/xpkg"
)

type verifModel struct {
	Label  string            `json:"label"`
	Values map[string]string `json:"values"`
}

func TestVerifReplay(t *testing.T) {
	b, err := os.ReadFile(os.Getenv("VERIF_MODEL"))
	if err != nil {
		t.Skip("no model")
	}
	var m verifModel
	if err := json.Unmarshal(b, &m); err != nil {
		t.Fatal(err)
	}
	pool := []string{"xpkg.upbound.io/crossplane-contrib/provider-aws:v2.0.0", "registry.example.org:5000/org/provider-x@sha256:" + "0123456789abcdef0123456789abcdef0123456789abcdef0123456789abcdef"}
	if m.Values["samekey"] == "true" {
		pool = []string{"crossplane-contrib/provider-aws:v2.0.0"}
	}
	for _, img := range pool {
		ref, err := name.ParseReference(img, name.WithDefaultRegistry(""))
		if err != nil {
			t.Fatal(err)
		}
		src := xpkg.ParsePackageSourceFromReference(ref)
		pkgMap := map[string]string{}
		if m.Values["installed"] != "false" {
			// what PackageInstaller.Run records for an installed package with this source
			pkgMap[src] = "my-custom-name"
		}
		p := &v1.Provider{}
		if err := buildPack(p, img, pkgMap); err != nil {
			t.Fatal(err)
		}
		t.Logf("image=%s source=%s repository=%s installed-as=%v -> name=%s", img, src, ref.Context().RepositoryStr(), pkgMap, p.GetName())
		if existing, ok := pkgMap[src]; ok && p.GetName() != existing {
			t.Fatalf("VERIF-REPRODUCED: package with source %q is installed as %q but init would install it again as %q", src, existing, p.GetName())
		}
		if _, ok := pkgMap[src]; !ok && p.GetName() != xpkg.ToDNSLabel(ref.Context().RepositoryStr()) {
			t.Fatalf("VERIF-REPRODUCED: new package %q named %q instead of %q", img, p.GetName(), xpkg.ToDNSLabel(ref.Context().RepositoryStr()))
		}
	}
}
