package roles

// verif:search
// Replay concretiser for obligations of roles.ClusterRolesDiffer (C18): stored roles whose rules
// equal, extend, are a prefix of, or differ from the rendered ones, with equal or different
// labels. A stored role is left alone only when labels and rules are equal.

import (
	"testing"

	rbacv1 "k8s.io/api/rbac/v1"
	metav1 "k8s.io/apimachinery/pkg/apis/meta/v1"
)

func TestVerifReplay(t *testing.T) {
	rule := func(resources ...string) rbacv1.PolicyRule {
		return rbacv1.PolicyRule{APIGroups: []string{"s3.example.org"}, Resources: resources, Verbs: []string{"*"}}
	}
	desired := []rbacv1.PolicyRule{rule("buckets", "buckets/status")}
	stored := map[string][]rbacv1.PolicyRule{
		"equal":                     {rule("buckets", "buckets/status")},
		"superset in the same rule": {rule("buckets", "buckets/status", "objects", "objects/status")},
		"one more rule":             {rule("buckets", "buckets/status"), rule("objects")},
		"subset":                    {rule("buckets")},
		"empty":                     {},
		"other verbs":               {{APIGroups: []string{"s3.example.org"}, Resources: []string{"buckets", "buckets/status"}, Verbs: []string{"get"}}},
	}
	n := 0
	for name, rules := range stored {
		for _, sameLabels := range []bool{true, false} {
			n++
			d := &rbacv1.ClusterRole{ObjectMeta: metav1.ObjectMeta{Labels: map[string]string{"a": "b"}}, Rules: desired}
			c := &rbacv1.ClusterRole{ObjectMeta: metav1.ObjectMeta{Labels: map[string]string{"a": "b"}}, Rules: rules}
			if !sameLabels {
				c.Labels = map[string]string{"a": "stale"}
			}
			want := !(name == "equal" && sameLabels)
			if got := ClusterRolesDiffer(c, d); got != want {
				t.Fatalf("VERIF-REPRODUCED: stored role with rules %q (%v) and same labels=%v against the rendered rules %v: differ=%v, want %v (a role that is not rewritten keeps what it grants)", name, rules, sameLabels, desired, got, want)
			}
		}
	}
	t.Logf("searched %d stored roles: contract holds on all of them", n)
}
