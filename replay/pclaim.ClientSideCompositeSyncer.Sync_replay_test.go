package claim

// verif:search
// Replay concretiser for obligations of (*ClientSideCompositeSyncer).Sync (C06, C07): claims with
// or without a recorded XR reference; XRs that are new, unreadable (not created, but the claim
// records a name) or existing with their own machinery fields (claimRef, resourceRefs,
// writeConnectionSecretToRef, publishConnectionDetailsTo, compositionRevisionRef) and update
// policy; a fault at the claim update or the XR apply. Checked: the XR is applied under the
// recorded name and only after the claim recorded it; claim-only keys never reach the XR;
// XR-only keys never reach the claim's spec; the propagated selection fields arrive; the XR's
// own external name is kept; the revision reference flows back only under Automatic.

import (
	"context"
	"errors"
	"fmt"
	"testing"

	corev1 "k8s.io/api/core/v1"
	kerrors "k8s.io/apimachinery/pkg/api/errors"
	metav1 "k8s.io/apimachinery/pkg/apis/meta/v1"
	"k8s.io/apimachinery/pkg/runtime/schema"
	"k8s.io/apimachinery/pkg/types"
	"sigs.k8s.io/controller-runtime/pkg/client"

	xpv1 "github.com/crossplane/crossplane-runtime/apis/common/v1"
	"github.com/crossplane/crossplane-runtime/pkg/meta"
	"github.com/crossplane/crossplane-runtime/pkg/resource"
	"github.com/crossplane/crossplane-runtime/pkg/resource/unstructured/claim"
	"github.com/crossplane/crossplane-runtime/pkg/resource/unstructured/composite"
	"github.com/crossplane/crossplane-runtime/pkg/resource/unstructured/reference"
	"github.com/crossplane/crossplane-runtime/pkg/test"

	"github.com/crossplane/crossplane/internal/names"
)

func TestVerifReplay(t *testing.T) {
	manual, automatic := xpv1.UpdateManual, xpv1.UpdateAutomatic
	policies := map[string]*xpv1.UpdatePolicy{"unset": nil, "Automatic": &automatic, "Manual": &manual}
	n := 0
	for _, claimHasRef := range []bool{false, true} {
		for _, claimSelector := range []bool{false, true} {
			for _, xrState := range []string{"new", "unreadable", "exists"} {
				if xrState == "unreadable" && !claimHasRef {
					continue
				}
				for _, pname := range []string{"Manual", "Automatic", "unset"} {
					pol := policies[pname]
					for _, fault := range []string{"none", "claim update fails", "xr apply fails", "xr apply: already exists"} {
						n++
						cm := claim.New()
						cm.SetName("cool-claim")
						cm.SetNamespace("ns")
						cm.SetAnnotations(map[string]string{"user": "yes", "kubectl.kubernetes.io/last-applied-configuration": "big"})
						cm.Object["spec"] = map[string]any{"userField": "u", "writeConnectionSecretToRef": map[string]any{"name": "claim-secret"}, "compositeDeletePolicy": "Foreground"}
						cm.Object["status"] = map[string]any{}
						if claimHasRef {
							cm.SetResourceReference(&reference.Composite{Name: "cool-claim-recorded"})
						}
						if claimSelector {
							cm.SetCompositionSelector(&metav1.LabelSelector{MatchLabels: map[string]string{"a": "b"}})
							cm.SetCompositionRevisionSelector(&metav1.LabelSelector{MatchLabels: map[string]string{"c": "d"}})
						}
						cm.SetCompositionUpdatePolicy(pol)
						xr := composite.New()
						xr.Object["status"] = map[string]any{}
						if xrState == "exists" {
							xr.SetName("cool-claim-recorded")
							xr.SetCreationTimestamp(metav1.Now())
							xr.SetUID(types.UID("xr-uid"))
							meta.SetExternalName(xr, "xr-external")
							meta.AddAnnotations(xr, map[string]string{"user": "an-older-value"})
							xr.SetCompositionUpdatePolicy(pol)
							xr.SetCompositionRevisionReference(&corev1.LocalObjectReference{Name: "xr-rev"})
							xr.SetResourceReferences([]corev1.ObjectReference{{Name: "composed"}})
							xr.SetWriteConnectionSecretToReference(&xpv1.SecretReference{Name: "xr-secret", Namespace: "crossplane-system"})
							xr.SetClaimReference(cm.GetReference())
						}
						var order []string
						var applied *composite.Unstructured
						c := &test.MockClient{
							MockUpdate: func(_ context.Context, _ client.Object, _ ...client.UpdateOption) error {
								order = append(order, "update-claim")
								if fault == "claim update fails" {
									return errors.New("boom")
								}
								return nil
							},
							MockStatusUpdate: test.NewMockSubResourceUpdateFn(nil),
						}
						s := &ClientSideCompositeSyncer{client: resource.ClientApplicator{Client: c, Applicator: resource.ApplyFn(func(_ context.Context, o client.Object, _ ...resource.ApplyOption) error {
							order = append(order, "apply-xr")
							if fault == "xr apply fails" {
								return errors.New("boom")
							}
							if fault == "xr apply: already exists" {
								// e.g. the claim's own XR was created but cannot be read back yet
								return kerrors.NewAlreadyExists(schema.GroupResource{Resource: "xthings"}, o.GetName())
							}
							applied = &composite.Unstructured{Unstructured: *o.(*composite.Unstructured).Unstructured.DeepCopy()}
							if xrState == "exists" {
								// the patching applicator hands back the merged object: what the XR
								// controller owns on the stored XR is still there
								ox := o.(*composite.Unstructured)
								ox.SetCompositionRevisionReference(&corev1.LocalObjectReference{Name: "xr-rev"})
								ox.SetResourceReferences([]corev1.ObjectReference{{Name: "composed"}})
								ox.SetWriteConnectionSecretToReference(&xpv1.SecretReference{Name: "xr-secret", Namespace: "crossplane-system"})
							}
							return nil
						})}, names: names.NameGeneratorFn(func(_ context.Context, o resource.Object) error {
							if o.GetName() == "" {
								o.SetName("cool-claim-generated")
							}
							return nil
						})}
						err := s.Sync(context.Background(), cm, xr)
						desc := fmt.Sprintf("claim(recorded xr ref=%v selectors=%v) xr(%s policy=%s) fault=%s calls=%v", claimHasRef, claimSelector, xrState, pname, fault, order)
						wantName := "cool-claim-generated"
						if claimHasRef || xrState == "exists" {
							wantName = "cool-claim-recorded"
						}
						for i, o := range order {
							if o != "apply-xr" {
								continue
							}
							if cm.GetResourceReference() == nil || (!claimHasRef && i == 0) {
								t.Fatalf("VERIF-REPRODUCED: %s: the XR was applied before the claim recorded its name (claim now records %v)", desc, cm.GetResourceReference())
							}
							if cm.GetResourceReference().Name != wantName {
								t.Fatalf("VERIF-REPRODUCED: %s: the claim now references XR %q instead of %q - a second XR is created and the first one leaks", desc, cm.GetResourceReference().Name, wantName)
							}
						}
						if claimHasRef && (cm.GetResourceReference() == nil || cm.GetResourceReference().Name != "cool-claim-recorded") {
							t.Fatalf("VERIF-REPRODUCED: %s: the claim had recorded XR \"cool-claim-recorded\" and now records %v: the next reconcile creates another XR and the first one leaks", desc, cm.GetResourceReference())
						}
						if fault == "claim update fails" && !claimHasRef && err == nil {
							t.Fatalf("VERIF-REPRODUCED: %s: the claim could not record the XR but Sync reports success", desc)
						}
						if applied == nil {
							continue
						}
						if applied.GetName() != wantName {
							t.Fatalf("VERIF-REPRODUCED: %s: XR applied as %q, want %q (a second XR would leak the first)", desc, applied.GetName(), wantName)
						}
						spec, _ := applied.Object["spec"].(map[string]any)
						if _, ok := spec["compositeDeletePolicy"]; ok {
							t.Fatalf("VERIF-REPRODUCED: %s: claim-only field spec.compositeDeletePolicy was copied to the XR", desc)
						}
						if w, ok := spec["writeConnectionSecretToRef"].(map[string]any); ok && w["name"] == "claim-secret" {
							t.Fatalf("VERIF-REPRODUCED: %s: the claim's writeConnectionSecretToRef was copied to the XR", desc)
						}
						if spec["userField"] != "u" {
							t.Fatalf("VERIF-REPRODUCED: %s: the claim's own field spec.userField did not reach the XR", desc)
						}
						if claimSelector && (applied.GetCompositionSelector() == nil || applied.GetCompositionRevisionSelector() == nil) {
							t.Fatalf("VERIF-REPRODUCED: %s: the claim's composition selectors did not reach the XR", desc)
						}
						if _, ok := applied.GetAnnotations()["kubectl.kubernetes.io/last-applied-configuration"]; ok {
							t.Fatalf("VERIF-REPRODUCED: %s: a reserved annotation was propagated to the XR", desc)
						}
						if applied.GetAnnotations()["user"] != "yes" {
							t.Fatalf("VERIF-REPRODUCED: %s: the claim's annotation user=yes reached the XR as %q", desc, applied.GetAnnotations()["user"])
						}
						if xrState == "exists" && meta.GetExternalName(applied) != "xr-external" {
							t.Fatalf("VERIF-REPRODUCED: %s: the XR's own external name became %q", desc, meta.GetExternalName(applied))
						}
						if err != nil {
							continue
						}
						// XR -> claim
						cspec, _ := cm.Object["spec"].(map[string]any)
						for _, k := range []string{"claimRef", "resourceRefs", "publishConnectionDetailsTo"} {
							if _, ok := cspec[k]; ok {
								t.Fatalf("VERIF-REPRODUCED: %s: XR-only field spec.%s was copied into the claim", desc, k)
							}
						}
						if w, ok := cspec["writeConnectionSecretToRef"].(map[string]any); ok && w["name"] != "claim-secret" {
							t.Fatalf("VERIF-REPRODUCED: %s: the claim's writeConnectionSecretToRef became %v (the XR's own)", desc, w)
						}
						gotRev := ""
						if r := cm.GetCompositionRevisionReference(); r != nil {
							gotRev = r.Name
						}
						if (gotRev == "xr-rev") != (xrState == "exists" && pname == "Automatic") {
							t.Fatalf("VERIF-REPRODUCED: %s: the claim's compositionRevisionRef is %q (it flows back from the XR only under the Automatic policy)", desc, gotRev)
						}
					}
				}
			}
		}
	}
	t.Logf("searched %d (claim, XR, fault) combinations: contract holds on all of them", n)
}
