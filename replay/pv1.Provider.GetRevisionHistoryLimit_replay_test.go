package v1

// verif:search
// Replay concretiser for obligations of the GetRevisionHistoryLimit getters (C14): limits unset,
// 0 (never collect), 1, 5 and negative on each of the three package types; the getter returns
// what the spec says.

import (
	"testing"

	"k8s.io/utils/ptr"
)

func TestVerifReplay(t *testing.T) {
	show := func(p *int64) string {
		if p == nil {
			return "unset"
		}
		return string(rune('0'+*p%10)) + "…"
	}
	n := 0
	for _, l := range []*int64{nil, ptr.To[int64](0), ptr.To[int64](1), ptr.To[int64](5), ptr.To[int64](-1)} {
		pkgs := map[string]Package{
			"Provider":      &Provider{Spec: ProviderSpec{PackageSpec: PackageSpec{RevisionHistoryLimit: l}}},
			"Configuration": &Configuration{Spec: ConfigurationSpec{PackageSpec: PackageSpec{RevisionHistoryLimit: l}}},
			"Function":      &Function{Spec: FunctionSpec{PackageSpec: PackageSpec{RevisionHistoryLimit: l}}},
		}
		for kind, p := range pkgs {
			n++
			got := p.GetRevisionHistoryLimit()
			if (got == nil) != (l == nil) || (got != nil && *got != *l) {
				t.Fatalf("VERIF-REPRODUCED: %s with spec.revisionHistoryLimit %s reports the limit %s: with 0 the package manager would collect history the user asked to keep", kind, show(l), show(got))
			}
		}
	}
	t.Logf("searched %d (package type, limit) pairs: contract holds on all of them", n)
}
