package composite

// verif:search
// Replay concretiser for obligations of composite.UpdateResourceRefs (C01): every set of desired
// resources drawn from {Bucket/a, Bucket/b, Policy/a, Policy/b, Bucket with no name yet}; the
// XR must end up with exactly one reference per desired resource, to that resource.

import (
	"fmt"
	"sort"
	"testing"

	"github.com/crossplane/crossplane-runtime/pkg/resource/unstructured/composed"
	"github.com/crossplane/crossplane-runtime/pkg/resource/unstructured/composite"
)

func TestVerifReplay(t *testing.T) {
	type res struct{ key, kind, name string }
	pool := []res{{"bucket-a", "Bucket", "a"}, {"bucket-b", "Bucket", "b"}, {"policy-a", "Policy", "a"}, {"policy-b", "Policy", "b"}, {"bucket-new", "Bucket", ""}}
	n := 0
	for m := 0; m < 1<<len(pool); m++ {
		n++
		desired := ComposedResourceStates{}
		var want []string
		for i, r := range pool {
			if m&(1<<i) == 0 {
				continue
			}
			cd := composed.New()
			cd.SetAPIVersion("example.org/v1")
			cd.SetKind(r.kind)
			cd.SetName(r.name)
			desired[ResourceName(r.key)] = ComposedResourceState{Resource: cd}
			want = append(want, "example.org/v1/"+r.kind+"/"+r.name)
		}
		xr := composite.New()
		UpdateResourceRefs(xr, desired)
		var got []string
		for _, ref := range xr.GetResourceReferences() {
			got = append(got, ref.APIVersion+"/"+ref.Kind+"/"+ref.Name)
		}
		sort.Strings(want)
		sort.Strings(got)
		if fmt.Sprint(got) != fmt.Sprint(want) {
			t.Fatalf("VERIF-REPRODUCED: desired resources %v -> spec.resourceRefs %v (a composed resource without a reference can never be found again)", want, got)
		}
	}
	t.Logf("searched %d desired sets: contract holds on all of them", n)
}
