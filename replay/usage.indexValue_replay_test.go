package usage

// verif:search
// Replay concretiser for obligations of usage.indexValue (C19): the index key of a used resource
// depends on its API group, kind and name only - two API versions of the same group give the
// same key (a Usage written against v1beta1 still protects the object served as v1), and
// different groups, kinds or names give different keys.

import (
	"testing"
)

func TestVerifReplay(t *testing.T) {
	type obj struct{ apiVersion, group, kind, name string }
	var objs []obj
	for _, av := range []struct{ s, g string }{{"example.org/v1", "example.org"}, {"example.org/v1beta1", "example.org"}, {"other.org/v1", "other.org"}, {"v1", ""}} {
		for _, k := range []string{"Thing", "Other"} {
			for _, n := range []string{"a", "b"} {
				objs = append(objs, obj{av.s, av.g, k, n})
			}
		}
	}
	for _, a := range objs {
		for _, b := range objs {
			same := a.group == b.group && a.kind == b.kind && a.name == b.name
			ka, kb := indexValue(a.apiVersion, a.kind, a.name), indexValue(b.apiVersion, b.kind, b.name)
			if (ka == kb) != same {
				t.Fatalf("VERIF-REPRODUCED: indexValue(%q,%q,%q)=%q and indexValue(%q,%q,%q)=%q, but the two are %s resource", a.apiVersion, a.kind, a.name, ka, b.apiVersion, b.kind, b.name, kb, map[bool]string{true: "the same", false: "not the same"}[same])
			}
		}
	}
	t.Logf("searched %d object pairs: contract holds on all of them", len(objs)*len(objs))
}
