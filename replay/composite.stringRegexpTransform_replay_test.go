package composite

// Replay concretiser for the safety obligations of composite.stringRegexpTransform (C10).

import (
	"encoding/json"
	"os"
	"strconv"
	"testing"

	v1 "github.com/crossplane/crossplane/apis/apiextensions/v1"
)

type verifModel struct {
	Label  string            `json:"label"`
	Values map[string]string `json:"values"`
}

func TestVerifReplay(t *testing.T) {
	b, err := os.ReadFile(os.Getenv("VERIF_MODEL"))
	if err != nil {
		t.Skip("no model")
	}
	var m verifModel
	if err := json.Unmarshal(b, &m); err != nil {
		t.Fatal(err)
	}
	g, _ := strconv.Atoi(m.Values["idx"])
	tr := v1.Transform{Type: v1.TransformTypeString, String: &v1.StringTransform{Type: v1.StringTransformTypeRegexp,
		Regexp: &v1.StringTransformRegexp{Match: "(a)(b)", Group: &g}}}
	if verr := tr.Validate(); verr != nil {
		t.Logf("transform rejected by Validate: %v", verr)
		return
	}
	defer func() {
		if r := recover(); r != nil {
			t.Fatalf("VERIF-REPRODUCED: a string regexp transform that passed Validate() panics while rendering (group=%d): %v", g, r)
		}
	}()
	out, err := Resolve(tr, "ab")
	t.Logf("group=%d -> %v, %v", g, out, err)
}
