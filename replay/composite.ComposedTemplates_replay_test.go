package composite

// verif:search
// Replay concretiser for obligations of composite.ComposedTemplates (C10): templates that refer
// to patch sets (first, last, twice, the same set from two templates), with patch-set slices that
// have spare capacity (as JSON decoding leaves them). Each template ends up with its own patches
// in order, whatever the other templates append, and the patch sets are not written.

import (
	"fmt"
	"testing"

	v1 "github.com/crossplane/crossplane/apis/apiextensions/v1"
)

func TestVerifReplay(t *testing.T) {
	from := func(s string) v1.Patch { return v1.Patch{Type: v1.PatchTypeFromCompositeFieldPath, FromFieldPath: &s} }
	set := func(s string) v1.Patch { return v1.Patch{Type: v1.PatchTypePatchSet, PatchSetName: &s} }
	names := func(ps []v1.Patch) string {
		out := ""
		for _, p := range ps {
			out += *p.FromFieldPath + " "
		}
		return out
	}
	n := 0
	for _, spare := range []int{0, 1, 3} {
		for _, shape := range []string{"set-first", "set-last", "set-twice", "own-only"} {
			n++
			common := make([]v1.Patch, 2, 2+spare)
			common[0], common[1] = from("common.a"), from("common.b")
			pss := []v1.PatchSet{{Name: "common", Patches: common}}
			var cts []v1.ComposedTemplate
			var want []string
			for _, tn := range []string{"one", "two", "three"} {
				own := from("own." + tn)
				var ps []v1.Patch
				var w string
				switch shape {
				case "set-first":
					ps, w = []v1.Patch{set("common"), own}, "common.a common.b own."+tn+" "
				case "set-last":
					ps, w = []v1.Patch{own, set("common")}, "own."+tn+" common.a common.b "
				case "set-twice":
					ps, w = []v1.Patch{set("common"), own, set("common")}, "common.a common.b own."+tn+" common.a common.b "
				default:
					ps, w = []v1.Patch{own}, "own."+tn+" "
				}
				name := tn
				cts = append(cts, v1.ComposedTemplate{Name: &name, Patches: ps})
				want = append(want, w)
			}
			got, err := ComposedTemplates(pss, cts)
			if err != nil {
				t.Fatal(err)
			}
			for i := range got {
				if g := names(got[i].Patches); g != want[i] {
					t.Fatalf("VERIF-REPRODUCED: %s, patch set with %d spare slots: template %q ends up with patches [%s], want [%s] (another template's append landed in a shared backing array)", shape, spare, *got[i].Name, g, want[i])
				}
			}
			if g := names(pss[0].Patches[:cap(pss[0].Patches)][:2]); g != "common.a common.b " {
				t.Fatalf("VERIF-REPRODUCED: %s: the patch set itself was rewritten: %s", shape, g)
			}
			if spare > 0 {
				if extra := pss[0].Patches[:cap(pss[0].Patches)][2]; extra.FromFieldPath != nil {
					t.Fatalf("VERIF-REPRODUCED: %s: the spare capacity of the revision's patch set was written (%s)", shape, fmt.Sprint(*extra.FromFieldPath))
				}
			}
		}
	}
	t.Logf("searched %d (shape, spare capacity) pairs: contract holds on all of them", n)
}
