package composite

// verif:search
// Replay concretiser for obligations of (*PTComposer).Compose (C01, C05, C10, C02): two named
// templates, "good" and one whose required from-XR patch finds its source or not, on an XR with
// or without the name-prefix label, with name generation succeeding or failing for one of
// them, and one API fault (conflict or error at the XR update, invalid or error at an apply).
// Checked: the XR is persisted - carrying one reference slot per template - before any composed
// resource is applied, and nothing is applied when that update failed; a resource whose
// rendering failed at any step is not applied while the others are; every template is
// reported, and one that was not applied is reported neither synced nor ready.

import (
	"context"
	"errors"
	"fmt"
	"strings"
	"testing"

	kerrors "k8s.io/apimachinery/pkg/api/errors"
	"k8s.io/apimachinery/pkg/runtime"
	"k8s.io/apimachinery/pkg/runtime/schema"
	"k8s.io/apimachinery/pkg/types"
	"k8s.io/apimachinery/pkg/util/validation/field"
	"k8s.io/utils/ptr"
	"sigs.k8s.io/controller-runtime/pkg/client"

	"github.com/crossplane/crossplane-runtime/pkg/reconciler/managed"
	"github.com/crossplane/crossplane-runtime/pkg/resource"
	"github.com/crossplane/crossplane-runtime/pkg/resource/unstructured/composite"
	"github.com/crossplane/crossplane-runtime/pkg/test"

	v1 "github.com/crossplane/crossplane/apis/apiextensions/v1"
	"github.com/crossplane/crossplane/internal/names"
	"github.com/crossplane/crossplane/internal/xcrd"
)

func TestVerifReplay(t *testing.T) {
	required := v1.FromFieldPathPolicyRequired
	templates := []v1.ComposedTemplate{
		{Name: ptr.To("good"), Base: runtime.RawExtension{Raw: []byte(`{"apiVersion":"test.crossplane.io/v1","kind":"Good"}`)}},
		{Name: ptr.To("patched"), Base: runtime.RawExtension{Raw: []byte(`{"apiVersion":"test.crossplane.io/v1","kind":"Patched"}`)},
			Patches: []v1.Patch{{Type: v1.PatchTypeFromCompositeFieldPath, FromFieldPath: ptr.To("spec.region"), ToFieldPath: ptr.To("spec.region"), Policy: &v1.PatchPolicy{FromFieldPath: &required}}}},
	}
	n := 0
	for _, sourcePresent := range []bool{true, false} {
		for _, prefixLabel := range []bool{true, false} {
			for _, nameFailsFor := range []string{"", "Good", "Patched"} {
				for _, fault := range []string{"none", "conflict@update-xr", "error@update-xr", "invalid@apply-Good", "error@apply-Patched"} {
					n++
					xr := composite.New()
					xr.SetAPIVersion("example.org/v1")
					xr.SetKind("XR")
					xr.SetName("parent-xr")
					xr.SetUID(types.UID("xr-uid"))
					if prefixLabel {
						xr.SetLabels(map[string]string{xcrd.LabelKeyNamePrefixForComposed: "parent-xr"})
					}
					xr.Object["spec"] = map[string]any{}
					if sourcePresent {
						xr.Object["spec"] = map[string]any{"region": "eu"}
					}
					var calls []string
					xrPersisted := false
					faultedOnce := false
					persistedSlots := -1
					c := &test.MockClient{
						MockGet: func(_ context.Context, _ client.ObjectKey, o client.Object) error {
							if x, ok := o.(*composite.Unstructured); ok {
								// the stored XR: whatever was persisted so far (no references before the update)
								x.SetResourceReferences(nil)
								return nil
							}
							return kerrors.NewNotFound(schema.GroupResource{}, "")
						},
						MockUpdate: func(_ context.Context, o client.Object, _ ...client.UpdateOption) error {
							if o.GetObjectKind().GroupVersionKind().Kind != "XR" {
								calls = append(calls, "update "+o.GetObjectKind().GroupVersionKind().Kind)
								return nil
							}
							calls = append(calls, "update-xr")
							if strings.HasSuffix(fault, "@update-xr") && !faultedOnce {
								faultedOnce = true
								if strings.HasPrefix(fault, "conflict") {
									return kerrors.NewConflict(schema.GroupResource{Resource: "xrs"}, "parent-xr", errors.New("stale"))
								}
								return errors.New("boom")
							}
							xrPersisted = true
							persistedSlots = len(o.(resource.ComposedResourcesReferencer).GetResourceReferences())
							return nil
						},
					}
					apply := resource.ApplyFn(func(_ context.Context, o client.Object, _ ...resource.ApplyOption) error {
						kind := o.GetObjectKind().GroupVersionKind().Kind
						if kind == "XR" {
							calls = append(calls, "apply-xr")
							return nil
						}
						calls = append(calls, fmt.Sprintf("apply %s (xr persisted: %v)", kind, xrPersisted))
						switch fault {
						case "invalid@apply-" + kind:
							return kerrors.NewInvalid(schema.GroupKind{Kind: kind}, "x", field.ErrorList{field.Invalid(field.NewPath("spec"), nil, "bad")})
						case "error@apply-" + kind:
							return errors.New("boom")
						}
						return nil
					})
					ptc := NewPTComposer(c, c,
						WithTemplateAssociator(CompositionTemplateAssociatorFn(func(_ context.Context, _ resource.Composite, cts []v1.ComposedTemplate) ([]TemplateAssociation, error) {
							return AssociateByOrder(cts, nil), nil
						})),
						WithComposedNameGenerator(names.NameGeneratorFn(func(_ context.Context, o resource.Object) error {
							if o.GetObjectKind().GroupVersionKind().Kind == nameFailsFor {
								return errors.New("no name available")
							}
							o.SetName("generated-" + strings.ToLower(o.GetObjectKind().GroupVersionKind().Kind))
							return nil
						})),
						WithComposedConnectionDetailsFetcher(ConnectionDetailsFetcherFn(func(_ context.Context, _ resource.ConnectionSecretOwner) (managed.ConnectionDetails, error) {
							return nil, nil
						})),
						WithComposedReadinessChecker(ReadinessCheckerFn(func(_ context.Context, _ ConditionedObject, _ ...ReadinessCheck) (bool, error) { return true, nil })),
					)
					ptc.client = resource.ClientApplicator{Client: c, Applicator: apply}
					res, err := ptc.Compose(context.Background(), xr, CompositionRequest{Revision: &v1.CompositionRevision{Spec: v1.CompositionRevisionSpec{Resources: templates}}})
					desc := fmt.Sprintf("required source present=%v, name-prefix label=%v, name generation fails for %q, fault=%s: calls=%v err=%v", sourcePresent, prefixLabel, nameFailsFor, fault, calls, err)
					renderFails := map[string]bool{"Good": !prefixLabel || nameFailsFor == "Good", "Patched": !prefixLabel || !sourcePresent || nameFailsFor == "Patched"}
					for _, cl := range calls {
						if strings.HasPrefix(cl, "apply ") && strings.HasSuffix(cl, "(xr persisted: false)") {
							t.Fatalf("VERIF-REPRODUCED: %s: a composed resource was applied before the XR (with its references) was persisted", desc)
						}
						for kind, fails := range renderFails {
							if fails && strings.HasPrefix(cl, "apply "+kind+" ") {
								t.Fatalf("VERIF-REPRODUCED: %s: %s could not be rendered completely but was applied", desc, kind)
							}
						}
					}
					if strings.HasSuffix(fault, "@update-xr") && !xrPersisted {
						if err == nil {
							t.Fatalf("VERIF-REPRODUCED: %s: the XR could not be persisted but Compose reports success", desc)
						}
						continue
					}
					if xrPersisted && persistedSlots != len(templates) {
						t.Fatalf("VERIF-REPRODUCED: %s: the persisted XR carries %d reference slots for %d templates", desc, persistedSlots, len(templates))
					}
					if err != nil {
						continue
					}
					for kind, fails := range renderFails {
						applied := false
						for _, cl := range calls {
							if strings.HasPrefix(cl, "apply "+kind+" ") {
								applied = true
							}
						}
						if !fails && !applied {
							t.Fatalf("VERIF-REPRODUCED: %s: %s rendered fine but was not applied (one resource's failure must not stop the others)", desc, kind)
						}
					}
					if len(res.Composed) != len(templates) {
						t.Fatalf("VERIF-REPRODUCED: %s: %d templates but %d resources reported", desc, len(templates), len(res.Composed))
					}
					for i, kind := range []string{"Good", "Patched"} {
						notApplied := renderFails[kind] || fault == "invalid@apply-"+kind
						if notApplied && (res.Composed[i].Synced || res.Composed[i].Ready) {
							t.Fatalf("VERIF-REPRODUCED: %s: %s was not applied but is reported synced=%v ready=%v", desc, kind, res.Composed[i].Synced, res.Composed[i].Ready)
						}
					}
				}
			}
		}
	}
	t.Logf("searched %d (XR, name generation, fault) combinations: contract holds on all of them", n)
}
