package claim

// verif:search
// Replay concretiser for obligations of (*ServerSideCompositeSyncer).Sync (C06, C07): claims with
// or without a recorded XR reference, an own compositionRef, a selector, a revision reference,
// reserved annotations; XRs that are new or exist with their own external name, compositionRef,
// revisionRef and update policy (unset / Automatic / Manual); and a fault at the claim update or
// the XR patch. Checked against the properties' clauses restated in Go: the XR is applied under
// the recorded name and only after the claim recorded it; claim-only keys never reach the XR and
// XR-only keys never reach the claim; the claim's own compositionRef is kept; the revision
// reference flows back only under the Automatic policy; the XR keeps its external name; reserved
// annotations are not propagated; the propagated selection fields arrive.

import (
	"context"
	"errors"
	"fmt"
	"testing"

	corev1 "k8s.io/api/core/v1"
	kerrors "k8s.io/apimachinery/pkg/api/errors"
	metav1 "k8s.io/apimachinery/pkg/apis/meta/v1"
	"k8s.io/apimachinery/pkg/runtime/schema"
	"sigs.k8s.io/controller-runtime/pkg/client"

	xpv1 "github.com/crossplane/crossplane-runtime/apis/common/v1"
	"github.com/crossplane/crossplane-runtime/pkg/meta"
	"github.com/crossplane/crossplane-runtime/pkg/resource"
	"github.com/crossplane/crossplane-runtime/pkg/resource/unstructured/claim"
	"github.com/crossplane/crossplane-runtime/pkg/resource/unstructured/composite"
	"github.com/crossplane/crossplane-runtime/pkg/resource/unstructured/reference"
	"github.com/crossplane/crossplane-runtime/pkg/test"

	"github.com/crossplane/crossplane/internal/names"
)

func TestVerifReplay(t *testing.T) {
	manual, automatic := xpv1.UpdateManual, xpv1.UpdateAutomatic
	policies := map[string]*xpv1.UpdatePolicy{"unset": nil, "Automatic": &automatic, "Manual": &manual}
	// one syncer instance serves every claim of an XRD: the search shares one too, and runs the
	// Manual cases first so that anything a sync leaves behind in the syncer shows up later
	var cur *test.MockClient
	shared := &test.MockClient{
		MockGet: func(ctx context.Context, k client.ObjectKey, o client.Object) error { return cur.MockGet(ctx, k, o) },
		MockUpdate: func(ctx context.Context, o client.Object, opts ...client.UpdateOption) error {
			return cur.MockUpdate(ctx, o, opts...)
		},
		MockPatch: func(ctx context.Context, o client.Object, p client.Patch, opts ...client.PatchOption) error {
			return cur.MockPatch(ctx, o, p, opts...)
		},
		MockStatusUpdate: test.NewMockSubResourceUpdateFn(nil),
	}
	syncer := NewServerSideCompositeSyncer(shared, names.NameGeneratorFn(func(_ context.Context, o resource.Object) error { o.SetName("cool-claim-generated"); return nil }))
	n := 0
	for _, claimHasRef := range []bool{false, true} {
		for _, claimCompRef := range []bool{false, true} {
			for _, claimSelector := range []bool{false, true} {
				for _, claimRevRef := range []bool{false, true} {
					for _, xrExists := range []bool{false, true} {
						for _, pname := range []string{"Manual", "Automatic", "unset"} {
							pol := policies[pname]
							for _, fault := range []string{"none", "claim update fails", "claim update conflicts once", "xr patch fails"} {
								n++
								cm := claim.New()
								cm.SetName("cool-claim")
								cm.SetNamespace("ns")
								cm.SetAnnotations(map[string]string{"user": "yes", "kubectl.kubernetes.io/last-applied-configuration": "big", "crossplane.io/external-name": "claim-external"})
								cm.Object["spec"] = map[string]any{"userField": "u", "writeConnectionSecretToRef": map[string]any{"name": "s"}, "compositeDeletePolicy": "Foreground"}
								if claimHasRef {
									cm.SetResourceReference(&reference.Composite{Name: "cool-claim-recorded"})
								}
								if claimCompRef {
									cm.SetCompositionReference(&corev1.ObjectReference{Name: "claim-chosen"})
								}
								if claimSelector {
									cm.SetCompositionSelector(&metav1.LabelSelector{MatchLabels: map[string]string{"a": "b"}})
									cm.SetCompositionRevisionSelector(&metav1.LabelSelector{MatchLabels: map[string]string{"c": "d"}})
								}
								if claimRevRef {
									cm.SetCompositionRevisionReference(&corev1.LocalObjectReference{Name: "claim-rev"})
								}
								cm.SetCompositionUpdatePolicy(pol)
								xr := composite.New()
								if xrExists {
									xr.SetName("cool-claim-recorded")
									meta.SetExternalName(xr, "xr-external")
									xr.SetCompositionReference(&corev1.ObjectReference{Name: "xr-chosen"})
									xr.SetCompositionRevisionReference(&corev1.LocalObjectReference{Name: "xr-rev"})
									xr.SetCompositionUpdatePolicy(pol)
									xr.SetClaimReference(cm.GetReference())
								}
								var order []string
								var patched *composite.Unstructured
								var updated *claim.Unstructured
								c := &test.MockClient{
									MockGet: test.NewMockGetFn(errors.New("not found")),
									MockUpdate: func(_ context.Context, o client.Object, _ ...client.UpdateOption) error {
										order = append(order, "update-claim")
										if fault == "claim update fails" {
											return errors.New("boom")
										}
										if fault == "claim update conflicts once" && len(order) == 1 {
											return kerrors.NewConflict(schema.GroupResource{Resource: "claims"}, "cool-claim", errors.New("stale"))
										}
										updated = o.(*claim.Unstructured)
										_ = updated
										return nil
									},
									MockPatch: func(_ context.Context, o client.Object, _ client.Patch, _ ...client.PatchOption) error {
										order = append(order, "patch-xr")
										if fault == "xr patch fails" {
											return errors.New("boom")
										}
										patched = &composite.Unstructured{Unstructured: *o.(*composite.Unstructured).Unstructured.DeepCopy()}
										return nil
									},
									MockStatusUpdate: test.NewMockSubResourceUpdateFn(nil),
								}
								cur = c
								err := syncer.Sync(context.Background(), cm, xr)
								desc := fmt.Sprintf("claim(recorded xr ref=%v own compositionRef=%v selectors=%v own revisionRef=%v) xr(exists=%v policy=%s) fault=%s calls=%v", claimHasRef, claimCompRef, claimSelector, claimRevRef, xrExists, pname, fault, order)
								if len(order) > 0 && order[0] != "update-claim" {
									t.Fatalf("VERIF-REPRODUCED: %s: the XR was applied before the claim recorded its name (a crash in between leaks the XR)", desc)
								}
								if (fault == "claim update fails" || fault == "claim update conflicts once") && (len(order) > 1 || err == nil) {
									t.Fatalf("VERIF-REPRODUCED: %s: the claim could not record the XR but the XR was applied / no error", desc)
								}
								if patched == nil {
									continue
								}
								wantName := "cool-claim-generated"
								if claimHasRef {
									wantName = "cool-claim-recorded"
								}
								if patched.GetName() != wantName || cm.GetResourceReference() == nil || cm.GetResourceReference().Name != wantName {
									t.Fatalf("VERIF-REPRODUCED: %s: XR applied as %q, claim records %v, want %q", desc, patched.GetName(), cm.GetResourceReference(), wantName)
								}
								spec, _ := patched.Object["spec"].(map[string]any)
								for _, k := range []string{"resourceRef", "writeConnectionSecretToRef", "publishConnectionDetailsTo", "compositeDeletePolicy"} {
									if _, ok := spec[k]; ok {
										t.Fatalf("VERIF-REPRODUCED: %s: claim-only field spec.%s was copied to the XR", desc, k)
									}
								}
								if spec["userField"] != "u" {
									t.Fatalf("VERIF-REPRODUCED: %s: the claim's own field spec.userField did not reach the XR", desc)
								}
								if claimSelector && (patched.GetCompositionSelector() == nil || patched.GetCompositionRevisionSelector() == nil) {
									t.Fatalf("VERIF-REPRODUCED: %s: the claim's composition selectors did not reach the XR", desc)
								}
								if claimCompRef && (patched.GetCompositionReference() == nil || patched.GetCompositionReference().Name != "claim-chosen") {
									t.Fatalf("VERIF-REPRODUCED: %s: the claim's compositionRef did not reach the XR", desc)
								}
								if _, ok := patched.GetAnnotations()["kubectl.kubernetes.io/last-applied-configuration"]; ok || patched.GetAnnotations()["user"] != "yes" {
									t.Fatalf("VERIF-REPRODUCED: %s: XR annotations %v (reserved annotations must not be propagated, user annotations must)", desc, patched.GetAnnotations())
								}
								if xrExists && meta.GetExternalName(patched) != "xr-external" {
									t.Fatalf("VERIF-REPRODUCED: %s: the XR's own external name \"xr-external\" became %q", desc, meta.GetExternalName(patched))
								}
								if _, has := spec["compositionRevisionRef"]; has != (claimRevRef && xrExists && pname == "Manual") {
									t.Fatalf("VERIF-REPRODUCED: %s: XR patch carries spec.compositionRevisionRef=%v; the claim's revision reference is propagated to the XR only when the XR's policy is Manual (otherwise the XR controller owns the field)", desc, has)
								}
								if ref := patched.GetClaimReference(); ref == nil || ref.Name != "cool-claim" || ref.Namespace != "ns" {
									t.Fatalf("VERIF-REPRODUCED: %s: XR claimRef is %v", desc, ref)
								}
								// XR -> claim
								if claimCompRef && cm.GetCompositionReference().Name != "claim-chosen" {
									t.Fatalf("VERIF-REPRODUCED: %s: the claim's own compositionRef was overwritten with %q", desc, cm.GetCompositionReference().Name)
								}
								wantRev := ""
								if claimRevRef {
									wantRev = "claim-rev"
								}
								if xrExists && pname == "Automatic" {
									wantRev = "xr-rev"
								}
								gotRev := ""
								if r := cm.GetCompositionRevisionReference(); r != nil {
									gotRev = r.Name
								}
								if gotRev != wantRev {
									t.Fatalf("VERIF-REPRODUCED: %s: the claim's compositionRevisionRef is %q, want %q (it flows back from the XR only under the Automatic policy)", desc, gotRev, wantRev)
								}
							}
						}
					}
				}
			}
		}
	}
	t.Logf("searched %d (claim, XR, fault) combinations: contract holds on all of them", n)
}
