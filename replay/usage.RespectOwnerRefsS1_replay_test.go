package usage

// verif:search
// Replay concretiser for obligations of the usage.RespectOwnerRefs apply option (C19): composed
// Usages (v1beta1) with and without owners, and composed resources of other kinds. A Usage's
// existing owners are carried over to the desired object; nothing else is touched.

import (
	"context"
	"testing"

	metav1 "k8s.io/apimachinery/pkg/apis/meta/v1"
	"k8s.io/utils/ptr"

	"github.com/crossplane/crossplane-runtime/pkg/resource/unstructured/composed"

	"github.com/crossplane/crossplane/apis/apiextensions/v1beta1"
)

func TestVerifReplay(t *testing.T) {
	using := metav1.OwnerReference{APIVersion: "example.org/v1", Kind: "Thing", Name: "using", UID: "using-uid"}
	xr := metav1.OwnerReference{APIVersion: "example.org/v1", Kind: "XThing", Name: "xr", UID: "xr-uid", Controller: ptr.To(true)}
	n := 0
	for _, isUsage := range []bool{true, false} {
		for _, owners := range [][]metav1.OwnerReference{nil, {xr}, {xr, using}} {
			n++
			current := composed.New()
			if isUsage {
				current.SetGroupVersionKind(v1beta1.UsageGroupVersionKind)
			} else {
				current.SetAPIVersion("example.org/v1")
				current.SetKind("Thing")
			}
			current.SetOwnerReferences(owners)
			desired := composed.New()
			desired.SetGroupVersionKind(current.GroupVersionKind())
			desired.SetOwnerReferences([]metav1.OwnerReference{xr})
			if err := RespectOwnerRefs()(context.Background(), current, desired); err != nil {
				t.Fatalf("VERIF-REPRODUCED: the option failed the apply: %v", err)
			}
			want := 1
			if isUsage && len(owners) > 0 {
				want = len(owners)
			}
			if got := len(desired.GetOwnerReferences()); got != want {
				t.Fatalf("VERIF-REPRODUCED: composed Usage=%v with existing owners %v: the object that is applied has %d owner references, want %d (a Usage that loses the reference to its using resource is never released when that resource goes)", isUsage, owners, got, want)
			}
		}
	}
	t.Logf("searched %d (kind, owners) pairs: contract holds on all of them", n)
}
