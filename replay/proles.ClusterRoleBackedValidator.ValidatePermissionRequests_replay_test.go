package roles

// verif:search
// Replay concretiser for obligations of (*ClusterRoleBackedValidator).ValidatePermissionRequests
// (C18): the allow-list ClusterRole exists (and covers the request or not), does not exist, or
// cannot be read; a request is reported as not rejected only when the role was read and covers it -
// also when the same validator is asked again after the allow-list was edited in place.

import (
	"context"
	"errors"
	"testing"

	rbacv1 "k8s.io/api/rbac/v1"
	kerrors "k8s.io/apimachinery/pkg/api/errors"
	"k8s.io/apimachinery/pkg/runtime/schema"
	"sigs.k8s.io/controller-runtime/pkg/client"

	"github.com/crossplane/crossplane-runtime/pkg/test"
)

func TestVerifReplay(t *testing.T) {
	req := rbacv1.PolicyRule{APIGroups: []string{"rbac.authorization.k8s.io"}, Resources: []string{"clusterrolebindings"}, Verbs: []string{"create"}}
	worlds := map[string]func(o client.Object) error{
		"allow-list covers the request": func(o client.Object) error { o.(*rbacv1.ClusterRole).Rules = []rbacv1.PolicyRule{req}; return nil },
		"allow-list does not cover the request": func(o client.Object) error {
			o.(*rbacv1.ClusterRole).Rules = []rbacv1.PolicyRule{{APIGroups: []string{"apps"}, Resources: []string{"deployments"}, Verbs: []string{"get"}}}
			return nil
		},
		"allow-list role is empty": func(client.Object) error { return nil },
		"allow-list role does not exist": func(client.Object) error {
			return kerrors.NewNotFound(schema.GroupResource{Resource: "clusterroles"}, "allowed")
		},
		"allow-list role cannot be read": func(client.Object) error { return errors.New("boom") },
	}
	for name, w := range worlds {
		c := &test.MockClient{MockGet: test.NewMockGetFn(nil, w)}
		rejected, err := NewClusterRoleBackedValidator(c, "allowed").ValidatePermissionRequests(context.Background(), req)
		granted := err == nil && len(rejected) == 0
		if granted != (name == "allow-list covers the request") {
			t.Fatalf("VERIF-REPRODUCED: %s: request %v -> rejected=%v err=%v (granted=%v)", name, req, rejected, err, granted)
		}
	}
	// histories: one validator, the allow-list edited in place between two validations (same UID,
	// generation stays 0 - the API server does not count generations of ClusterRoles)
	covering := []rbacv1.PolicyRule{req}
	other := []rbacv1.PolicyRule{{APIGroups: []string{"apps"}, Resources: []string{"deployments"}, Verbs: []string{"get"}}}
	for _, h := range []struct {
		name          string
		first, second []rbacv1.PolicyRule
	}{{"narrowed", covering, other}, {"widened", other, covering}, {"unchanged-covering", covering, covering}, {"unchanged-other", other, other}} {
		current := h.first
		c := &test.MockClient{MockGet: test.NewMockGetFn(nil, func(o client.Object) error {
			cr := o.(*rbacv1.ClusterRole)
			cr.UID = "allow-list-uid"
			cr.ResourceVersion = "1"
			cr.Rules = current
			return nil
		})}
		v := NewClusterRoleBackedValidator(c, "allowed")
		for i, rules := range [][]rbacv1.PolicyRule{h.first, h.second} {
			current = rules
			rejected, err := v.ValidatePermissionRequests(context.Background(), req)
			granted := err == nil && len(rejected) == 0
			want := len(rules) == 1 && rules[0].Resources[0] == "clusterrolebindings"
			if granted != want {
				t.Fatalf("VERIF-REPRODUCED: allow-list %s, validation %d with the same validator: request %v -> rejected=%v err=%v (granted=%v, the allow-list read in this call says %v)", h.name, i+1, req, rejected, err, granted, want)
			}
		}
	}
	t.Logf("searched %d allow-list states and 4 edit histories: contract holds on all of them", len(worlds))
}
