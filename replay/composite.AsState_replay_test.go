package composite

// verif:search
// Replay concretiser for obligations of composite.AsState (C04): observed composed resources that
// are healthy, being deleted (held by a finalizer), unnamed or without connection details. Every
// one of them is in the observed state handed to the functions, under its resource name, with its
// connection details; the XR carries its own.

import (
	"testing"

	metav1 "k8s.io/apimachinery/pkg/apis/meta/v1"

	"github.com/crossplane/crossplane-runtime/pkg/reconciler/managed"
	"github.com/crossplane/crossplane-runtime/pkg/resource/unstructured/composed"
	"github.com/crossplane/crossplane-runtime/pkg/resource/unstructured/composite"
)

func TestVerifReplay(t *testing.T) {
	mk := func(name string, deleting bool) *composed.Unstructured {
		cd := composed.New()
		cd.SetAPIVersion("example.org/v1")
		cd.SetKind("Thing")
		cd.SetName(name)
		if deleting {
			now := metav1.Now()
			cd.SetDeletionTimestamp(&now)
			cd.SetFinalizers([]string{"example.org/hold"})
		}
		return cd
	}
	rs := ComposedResourceStates{
		"healthy":    {Resource: mk("a", false), ConnectionDetails: managed.ConnectionDetails{"k": []byte("v")}},
		"deleting":   {Resource: mk("b", true), ConnectionDetails: managed.ConnectionDetails{"k2": []byte("v2")}},
		"unnamed":    {Resource: mk("", false)},
		"no-details": {Resource: mk("d", false)},
		"deleting-2": {Resource: mk("e", true)},
	}
	xr := composite.New()
	xr.SetAPIVersion("example.org/v1")
	xr.SetKind("XThing")
	xr.SetName("xr")
	st, err := AsState(xr, managed.ConnectionDetails{"xr-key": []byte("x")}, rs)
	if err != nil {
		t.Fatal(err)
	}
	for name, r := range rs {
		got, ok := st.GetResources()[string(name)]
		if !ok {
			t.Fatalf("VERIF-REPRODUCED: observed composed resource %q (being deleted: %v) is missing from the observed state handed to the functions - they see an XR that has lost a resource it still has", name, r.Resource.GetDeletionTimestamp() != nil)
		}
		if len(got.GetConnectionDetails()) != len(r.ConnectionDetails) {
			t.Fatalf("VERIF-REPRODUCED: observed resource %q reaches the functions with connection details %v, it has %v", name, got.GetConnectionDetails(), r.ConnectionDetails)
		}
	}
	if len(st.GetResources()) != len(rs) || string(st.GetComposite().GetConnectionDetails()["xr-key"]) != "x" {
		t.Fatalf("VERIF-REPRODUCED: observed state has %d resources for %d observed, XR connection details %v", len(st.GetResources()), len(rs), st.GetComposite().GetConnectionDetails())
	}
	t.Logf("searched 1 observed state of %d resources: contract holds", len(rs))
}
