package xpkg

// verif:search
// Replay concretiser for obligations of the meta-type predicates (C15): each predicate is run on
// the meta objects of every package type and version and on objects that are no package meta at
// all; it must accept exactly the objects that are, or convert to, its own package type's meta.

import (
	"testing"

	extv1 "k8s.io/apiextensions-apiserver/pkg/apis/apiextensions/v1"
	"k8s.io/apimachinery/pkg/runtime"

	v1 "github.com/crossplane/crossplane/apis/apiextensions/v1"
	pkgmetav1 "github.com/crossplane/crossplane/apis/pkg/meta/v1"
	pkgmetav1alpha1 "github.com/crossplane/crossplane/apis/pkg/meta/v1alpha1"
	pkgmetav1beta1 "github.com/crossplane/crossplane/apis/pkg/meta/v1beta1"
)

func TestVerifReplay(t *testing.T) {
	objs := []struct {
		name string
		o    runtime.Object
		kind string
	}{
		{"meta v1 Provider", &pkgmetav1.Provider{}, "Provider"},
		{"meta v1 Configuration", &pkgmetav1.Configuration{}, "Configuration"},
		{"meta v1 Function", &pkgmetav1.Function{}, "Function"},
		{"meta v1alpha1 Provider", &pkgmetav1alpha1.Provider{}, "Provider"},
		{"meta v1alpha1 Configuration", &pkgmetav1alpha1.Configuration{}, "Configuration"},
		{"meta v1beta1 Function", &pkgmetav1beta1.Function{}, "Function"},
		{"CustomResourceDefinition", &extv1.CustomResourceDefinition{}, ""},
		{"Composition", &v1.Composition{}, ""},
	}
	preds := map[string]func(runtime.Object) error{"Provider": IsProvider, "Configuration": IsConfiguration, "Function": IsFunction}
	want := "Configuration"
	for _, c := range objs {
		err := preds[want](c.o)
		if (err == nil) != (c.kind == want) {
			t.Fatalf("VERIF-REPRODUCED: IsConfiguration(%s) = %v, but the object %s package meta of type %s", c.name, err, map[bool]string{true: "is", false: "is not"}[c.kind == want], want)
		}
	}
	t.Logf("searched %d objects: contract holds on all of them", len(objs))
}
