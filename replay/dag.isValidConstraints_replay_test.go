package dag

// verif:search
// Replay concretiser for obligations of dag.isValidConstraints (C17): every pair of an installed
// version and a parent's constraint over tags, ranges, digests and malformed text. The installed
// version is acceptable iff it is literally the constraint (a pinned digest) or it is a semantic
// version inside the constraint's range.

import (
	"testing"

	"github.com/Masterminds/semver"
)

type verifNode struct {
	id, constraints string
	parents         []string
	neighbors       []Node
}

func (n *verifNode) Identifier() string              { return n.id }
func (n *verifNode) Neighbors() []Node               { return n.neighbors }
func (n *verifNode) GetConstraints() string          { return n.constraints }
func (n *verifNode) GetParentConstraints() []string  { return n.parents }
func (n *verifNode) AddParentConstraints(c []string) { n.parents = append(n.parents, c...) }
func (n *verifNode) AddNeighbors(ns ...Node) error {
	n.neighbors = append(n.neighbors, ns...)
	return nil
}

func TestVerifReplay(t *testing.T) {
	const da = "sha256:aaaaaaaaaaaaaaaaaaaaaaaaaaaaaaaaaaaaaaaaaaaaaaaaaaaaaaaaaaaaaaaa"
	const db = "sha256:bbbbbbbbbbbbbbbbbbbbbbbbbbbbbbbbbbbbbbbbbbbbbbbbbbbbbbbbbbbbbbbb"
	installed := []string{"v1.0.0", "v2.5.0", "1.2.3", da, db, "latest", ""}
	wanted := []string{">=1.0.0", ">=2.0.0", "<2.0.0", "v1.0.0", "1.2.x", da, db, "not a constraint", ">=", ""}
	n := 0
	for _, iv := range installed {
		for _, wc := range wanted {
			n++
			want := iv == wc
			if c, err := semver.NewConstraint(wc); err == nil && !want {
				if v, err := semver.NewVersion(iv); err == nil {
					want = c.Check(v)
				}
			}
			got := isValidConstraints(&verifNode{id: "p", constraints: iv}, &verifNode{id: "p", constraints: wc})
			if got != want {
				t.Fatalf("VERIF-REPRODUCED: isValidConstraints(installed %q, wanted %q) = %v, want %v", iv, wc, got, want)
			}
		}
	}
	t.Logf("searched %d (installed, constraint) pairs: contract holds on all of them", n)
}
