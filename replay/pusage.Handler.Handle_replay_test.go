package usage

// verif:search
// Replay concretiser for obligations of (*usage.Handler).Handle (C19): every operation x
// dry-run flag x propagation policy x (no Usage / one Usage / List fails) over a fake client; a
// request is allowed only if it is a DELETE whose usage check listed no Usage.

import (
	"context"
	"encoding/json"
	"errors"
	"fmt"
	"testing"

	admissionv1 "k8s.io/api/admission/v1"
	metav1 "k8s.io/apimachinery/pkg/apis/meta/v1"
	"k8s.io/apimachinery/pkg/runtime"
	"sigs.k8s.io/controller-runtime/pkg/client"
	"sigs.k8s.io/controller-runtime/pkg/webhook/admission"

	"github.com/crossplane/crossplane-runtime/pkg/test"

	"github.com/crossplane/crossplane/apis/apiextensions/v1beta1"
)

func TestVerifReplay(t *testing.T) {
	obj := []byte(`{"apiVersion":"nop.crossplane.io/v1","kind":"NopResource","metadata":{"name":"used"}}`)
	n := 0
	for _, op := range []admissionv1.Operation{admissionv1.Create, admissionv1.Update, admissionv1.Delete, admissionv1.Connect} {
		for _, dry := range []bool{false, true} {
			for _, policy := range []string{"", "Background", "Foreground", "Orphan"} {
				for _, world := range []string{"no usage", "one usage", "list fails"} {
					n++
					c := &test.MockClient{
						MockList: func(_ context.Context, l client.ObjectList, _ ...client.ListOption) error {
							switch world {
							case "list fails":
								return errors.New("boom")
							case "one usage":
								l.(*v1beta1.UsageList).Items = []v1beta1.Usage{{ObjectMeta: metav1.ObjectMeta{Name: "u"}, Spec: v1beta1.UsageSpec{Of: v1beta1.Resource{APIVersion: "nop.crossplane.io/v1", Kind: "NopResource", ResourceRef: &v1beta1.ResourceRef{Name: "used"}}}}}
							}
							return nil
						},
						MockPatch: test.NewMockPatchFn(nil),
					}
					opts := map[string]any{}
					if dry {
						opts["dryRun"] = []string{"All"}
					}
					if policy != "" {
						opts["propagationPolicy"] = policy
					}
					ob, _ := json.Marshal(opts)
					req := admission.Request{AdmissionRequest: admissionv1.AdmissionRequest{Operation: op, OldObject: runtime.RawExtension{Raw: obj}, Options: runtime.RawExtension{Raw: ob}}}
					if dry {
						d := true
						req.DryRun = &d
					}
					rsp := NewHandler(c).Handle(context.Background(), req)
					want := op == admissionv1.Delete && world == "no usage"
					if rsp.Allowed && !want {
						t.Fatalf("VERIF-REPRODUCED: %s request (dryRun=%v, propagationPolicy=%q) with %s was allowed", op, dry, policy, world)
					}
					if !rsp.Allowed && want {
						t.Fatalf("VERIF-REPRODUCED: DELETE request (dryRun=%v, propagationPolicy=%q) of an unused resource was refused: %v", dry, policy, rsp.Result)
					}
				}
			}
		}
	}
	t.Log(fmt.Sprintf("searched %d requests: contract holds on all of them", n))
}
