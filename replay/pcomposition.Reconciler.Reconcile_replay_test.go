package composition

// Replay concretiser for obligations of (*composition.Reconciler).Reconcile (C12).
// Injected with `go test -overlay` by /verif/gowp; reads witness values of the solver model
// from $VERIF_MODEL and drives the real reconciler with a recording fake client.

import (
	"context"
	"encoding/json"
	"fmt"
	"os"
	"strconv"
	"testing"

	metav1 "k8s.io/apimachinery/pkg/apis/meta/v1"
	"k8s.io/apimachinery/pkg/types"
	"sigs.k8s.io/controller-runtime/pkg/client"
	"sigs.k8s.io/controller-runtime/pkg/reconcile"

	"github.com/crossplane/crossplane-runtime/pkg/event"
	"github.com/crossplane/crossplane-runtime/pkg/logging"
	"github.com/crossplane/crossplane-runtime/pkg/test"

	v1 "github.com/crossplane/crossplane/apis/apiextensions/v1"
)

type verifModel struct {
	Obligation string            `json:"obligation"`
	Label      string            `json:"label"`
	Values     map[string]string `json:"values"`
}

func (m verifModel) int(k string, def int64) int64 {
	if v, ok := m.Values[k]; ok {
		if n, err := strconv.ParseInt(v, 10, 64); err == nil {
			return n
		}
	}
	return def
}

func TestVerifReplay(t *testing.T) {
	b, err := os.ReadFile(os.Getenv("VERIF_MODEL"))
	if err != nil {
		t.Skip("no model")
	}
	var m verifModel
	if err := json.Unmarshal(b, &m); err != nil {
		t.Fatal(err)
	}
	n := int(m.int("n", 1))
	if n < 1 {
		n = 1
	}
	if n > 6 {
		n = 6
	}
	if _, ok := m.Values["i"]; ok {
		replayWith(t, m, n, int(m.int("i", 0)))
		return
	}
	// the model does not say which listed revision holds the current content: try each, first
	// with the list as the model has it, then without the revisions that belong to somebody
	// else (they only make the reconciler stop early; they are irrelevant to the property)
	for cur := 0; cur < n; cur++ {
		replayWith(t, m, n, cur, false)
	}
	for cur := 0; cur < n; cur++ {
		replayWith(t, m, n, cur, true)
	}
}

func replayWith(t *testing.T, m verifModel, n, cur int, dropForeign ...bool) {
	var err error
	drop := len(dropForeign) > 0 && dropForeign[0]
	if cur < 0 || cur >= n {
		cur = 0
	}
	comp := &v1.Composition{ObjectMeta: metav1.ObjectMeta{Name: "comp", UID: types.UID("comp-uid")}}
	hash := comp.Hash()[:63]
	tr := true
	type revT struct {
		name  string
		rev   int64
		ours  bool
		match bool
	}
	var revs []revT
	var items []v1.CompositionRevision
	for j := 0; j < n; j++ {
		r := revT{name: fmt.Sprintf("comp-%d", j), rev: m.int(fmt.Sprintf("rev[%d]", j), int64(j+1)), match: j == cur}
		if r.rev < 1 {
			r.rev = 1
		}
		h := fmt.Sprintf("other-%d", j)
		if r.match {
			h = hash
		}
		cr := v1.CompositionRevision{ObjectMeta: metav1.ObjectMeta{Name: r.name, Labels: map[string]string{v1.LabelCompositionName: "comp", v1.LabelCompositionHash: h}},
			Spec: v1.CompositionRevisionSpec{Revision: r.rev}}
		switch {
		case m.Values[fmt.Sprintf("controlled[%d]", j)] == "true":
			cr.OwnerReferences = []metav1.OwnerReference{{UID: comp.UID, Controller: &tr, Name: "comp", Kind: "Composition", APIVersion: "apiextensions.crossplane.io/v1"}}
			r.ours = true
		case m.Values[fmt.Sprintf("orphan[%d]", j)] == "false":
			if drop {
				continue
			}
			cr.OwnerReferences = []metav1.OwnerReference{{UID: "somebody-else", Controller: &tr, Name: "x", Kind: "X", APIVersion: "v1"}}
		default:
			r.ours = true // orphaned (e.g. after backup/restore): re-adopted by the reconciler
		}
		revs = append(revs, r)
		items = append(items, cr)
	}
	type upd struct {
		name string
		rev  int64
	}
	var updates, creates []upd
	c := &test.MockClient{
		MockGet: test.NewMockGetFn(nil, func(o client.Object) error { *o.(*v1.Composition) = *comp; return nil }),
		MockList: test.NewMockListFn(nil, func(o client.ObjectList) error {
			o.(*v1.CompositionRevisionList).Items = items
			return nil
		}),
		MockUpdate: func(_ context.Context, o client.Object, _ ...client.UpdateOption) error {
			r := o.(*v1.CompositionRevision)
			updates = append(updates, upd{r.GetName(), r.Spec.Revision})
			return nil
		},
		MockCreate: func(_ context.Context, o client.Object, _ ...client.CreateOption) error {
			r := o.(*v1.CompositionRevision)
			creates = append(creates, upd{r.GetName(), r.Spec.Revision})
			return nil
		},
	}
	r := &Reconciler{client: c, log: logging.NewNopLogger(), record: event.NewNopRecorder()}
	_, err = r.Reconcile(context.Background(), reconcile.Request{NamespacedName: types.NamespacedName{Name: "comp"}})
	t.Logf("listed=%+v updates=%+v creates=%+v err=%v", revs, updates, creates, err)
	listed := map[string]revT{}
	for _, r := range revs {
		listed[r.name] = r
	}
	for _, u := range updates {
		was := listed[u.name]
		if u.rev < was.rev {
			t.Fatalf("VERIF-REPRODUCED: revision %q was renumbered downwards from %d to %d (listed=%+v)", u.name, was.rev, u.rev, revs)
		}
		if u.rev != was.rev {
			for _, o := range revs {
				if o.ours && o.name != u.name && o.rev > u.rev {
					t.Fatalf("VERIF-REPRODUCED: revision %q holding the current content was renumbered to %d although %q has number %d (listed=%+v)", u.name, u.rev, o.name, o.rev, revs)
				}
			}
		}
	}
	for _, cr := range creates {
		for _, o := range revs {
			if o.ours && o.rev > cr.rev {
				t.Fatalf("VERIF-REPRODUCED: new revision created with number %d although %q has number %d", cr.rev, o.name, o.rev)
			}
		}
	}
}
