package xpkg

// verif:search
// Replay concretiser for obligations of xpkg.ParsePackageSourceFromReference (C20): references
// over registries with and without a port, nested repositories, tags and digests. The source is
// registry/repository - distinct repositories have distinct sources, the same repository at
// another tag or digest has the same source.

import (
	"testing"

	"github.com/google/go-containerregistry/pkg/name"
)

func TestVerifReplay(t *testing.T) {
	const digest = "sha256:0123456789abcdef0123456789abcdef0123456789abcdef0123456789abcdef"
	type in struct{ text, want string }
	var ins []in
	for _, reg := range []string{"xpkg.upbound.io", "registry.local:5000", "localhost:5000", "index.docker.io"} {
		for _, repo := range []string{"acme/provider-a", "acme/provider-b", "acme/sub/provider-a"} {
			for _, id := range []string{":v1.0.0", ":latest", "@" + digest} {
				ins = append(ins, in{reg + "/" + repo + id, reg + "/" + repo})
			}
		}
	}
	n := 0
	for _, i := range ins {
		n++
		ref, err := name.ParseReference(i.text, name.WithDefaultRegistry(""))
		if err != nil {
			t.Fatal(err)
		}
		if got := ParsePackageSourceFromReference(ref); got != i.want {
			t.Fatalf("VERIF-REPRODUCED: source of %q is %q, want %q (packages of different repositories would share one index entry)", i.text, got, i.want)
		}
	}
	t.Logf("searched %d references: contract holds on all of them", n)
}
