package usage

// verif:search
// Replay concretiser for obligations of (*usage.Handler).validateNoUsages (C19): the deleted
// object carries no recorded attempt or one recorded with Background/Orphan, the request names no
// policy or Background/Foreground/Orphan, and the usage List returns none, one, or an error.
// Allowed iff the List succeeded with no Usage; after a refusal because of Usages the object
// (as patched) records the attempt with this request's policy (Background when none is named).

import (
	"context"
	"errors"
	"fmt"
	"testing"

	metav1 "k8s.io/apimachinery/pkg/apis/meta/v1"
	"k8s.io/apimachinery/pkg/apis/meta/v1/unstructured"
	"sigs.k8s.io/controller-runtime/pkg/client"

	"github.com/crossplane/crossplane-runtime/pkg/test"

	"github.com/crossplane/crossplane/apis/apiextensions/v1beta1"
)

func TestVerifReplay(t *testing.T) {
	n := 0
	for _, recorded := range []string{"", "Background", "Orphan"} {
		for _, policy := range []string{"", "Background", "Foreground", "Orphan"} {
			for _, world := range []string{"no usage", "one usage", "list fails"} {
				n++
				u := &unstructured.Unstructured{Object: map[string]any{"apiVersion": "nop.crossplane.io/v1", "kind": "NopResource", "metadata": map[string]any{"name": "used"}}}
				if recorded != "" {
					u.SetAnnotations(map[string]string{AnnotationKeyDeletionAttempt: recorded})
				}
				stored := recorded // what the API server holds for the annotation
				c := &test.MockClient{
					MockList: func(_ context.Context, l client.ObjectList, _ ...client.ListOption) error {
						switch world {
						case "list fails":
							return errors.New("boom")
						case "one usage":
							l.(*v1beta1.UsageList).Items = []v1beta1.Usage{{ObjectMeta: metav1.ObjectMeta{Name: "u"}, Spec: v1beta1.UsageSpec{Reason: func() *string { s := "because"; return &s }(), Of: v1beta1.Resource{APIVersion: "nop.crossplane.io/v1", Kind: "NopResource", ResourceRef: &v1beta1.ResourceRef{Name: "used"}}}}}
						}
						return nil
					},
					MockPatch: func(_ context.Context, o client.Object, _ client.Patch, _ ...client.PatchOption) error {
						stored = o.GetAnnotations()[AnnotationKeyDeletionAttempt]
						return nil
					},
				}
				opts := &metav1.DeleteOptions{}
				want := "Background"
				if policy != "" {
					p := metav1.DeletionPropagation(policy)
					opts.PropagationPolicy = &p
					want = policy
				}
				rsp := NewHandler(c).validateNoUsages(context.Background(), u, opts)
				desc := fmt.Sprintf("attempt recorded before=%q, request policy=%q, %s", recorded, policy, world)
				switch {
				case rsp.Allowed != (world == "no usage"):
					t.Fatalf("VERIF-REPRODUCED: %s: allowed=%v", desc, rsp.Allowed)
				case world == "one usage" && stored != want:
					t.Fatalf("VERIF-REPRODUCED: %s: the delete was refused but the used resource records the attempt with policy %q, not %q (a replayed deletion would use the wrong policy)", desc, stored, want)
				}
			}
		}
	}
	t.Logf("searched %d requests: contract holds on all of them", n)
}
