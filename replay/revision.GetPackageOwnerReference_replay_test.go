package revision

// verif:search
// Replay concretiser for obligations of revision.GetPackageOwnerReference (C16): revisions of each
// package type whose owner references name the parent package (with the kind the package manager
// writes, or without a kind), other owners before or after it. The package's owner reference is
// the first owner named by the revision's parent-package label, whatever its kind.

import (
	"testing"

	metav1 "k8s.io/apimachinery/pkg/apis/meta/v1"
	"k8s.io/utils/ptr"

	v1 "github.com/crossplane/crossplane/apis/pkg/v1"
)

func TestVerifReplay(t *testing.T) {
	n := 0
	for _, kind := range []string{"Provider", "Configuration", "Function", ""} {
		for _, shape := range []string{"package-only", "other-first", "other-last", "no-package-owner", "no-label"} {
			n++
			pkg := metav1.OwnerReference{APIVersion: "pkg.crossplane.io/v1", Kind: kind, Name: "my-package", UID: "pkg-uid", Controller: ptr.To(true)}
			other := metav1.OwnerReference{APIVersion: "v1", Kind: "ConfigMap", Name: "something-else", UID: "other-uid"}
			rev := &v1.FunctionRevision{}
			rev.SetLabels(map[string]string{v1.LabelParentPackage: "my-package"})
			want := true
			switch shape {
			case "package-only":
				rev.SetOwnerReferences([]metav1.OwnerReference{pkg})
			case "other-first":
				rev.SetOwnerReferences([]metav1.OwnerReference{other, pkg})
			case "other-last":
				rev.SetOwnerReferences([]metav1.OwnerReference{pkg, other})
			case "no-package-owner":
				rev.SetOwnerReferences([]metav1.OwnerReference{other})
				want = false
			case "no-label":
				rev.SetLabels(nil)
				rev.SetOwnerReferences([]metav1.OwnerReference{pkg})
				want = false
			}
			got, ok := GetPackageOwnerReference(rev)
			if ok != want || (ok && got.UID != "pkg-uid") {
				t.Fatalf("VERIF-REPRODUCED: revision of a %q package, owners %s: package owner found=%v (uid %q), want found=%v - objects this revision establishes would not keep the package as an owner and go when the revision is collected", kind, shape, ok, got.UID, want)
			}
		}
	}
	t.Logf("searched %d (package kind, owner shape) pairs: contract holds on all of them", n)
}
