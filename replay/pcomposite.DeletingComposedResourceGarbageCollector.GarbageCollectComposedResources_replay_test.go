package composite

// verif:search
// Replay concretiser for obligations of the function pipeline's garbage collector (C03, C02, C01):
// observed and desired sets over three resource names, each observed resource uncontrolled,
// controlled by the XR or controlled by someone else, and one API fault (conflict, server
// error, not found) at any single Update or Delete call. When it reports success every observed
// resource that is not desired was deleted; it never deletes a desired resource or one that
// somebody else controls.

import (
	"context"
	"errors"
	"fmt"
	"testing"

	kerrors "k8s.io/apimachinery/pkg/api/errors"
	metav1 "k8s.io/apimachinery/pkg/apis/meta/v1"
	"k8s.io/apimachinery/pkg/runtime/schema"
	"k8s.io/apimachinery/pkg/types"
	"k8s.io/utils/ptr"
	"sigs.k8s.io/controller-runtime/pkg/client"

	"github.com/crossplane/crossplane-runtime/pkg/resource/unstructured/composed"
	"github.com/crossplane/crossplane-runtime/pkg/test"
)

func TestVerifReplay(t *testing.T) {
	names := []string{"a", "b", "c"}
	owner := &metav1.ObjectMeta{UID: types.UID("xr-uid")}
	faults := map[string]error{"none": nil, "conflict": kerrors.NewConflict(schema.GroupResource{Resource: "things"}, "x", errors.New("conflict")),
		"server error": errors.New("boom"), "not found": kerrors.NewNotFound(schema.GroupResource{Resource: "things"}, "x")}
	n := 0
	for om := 0; om < 1<<len(names); om++ {
		for dm := 0; dm < 1<<len(names); dm++ {
			for ctl := 0; ctl < 3; ctl++ { // controller of the observed resources: 0 none, 1 the XR, 2 someone else
				for fname, ferr := range faults {
					for at := 0; at < 7; at++ { // the fault hits the at-th write
						if ferr == nil && at > 0 {
							continue
						}
						n++
						observed, desired := ComposedResourceStates{}, ComposedResourceStates{}
						for i, nm := range names {
							cd := composed.New()
							cd.SetKind("Thing")
							cd.SetName("thing-" + nm)
							switch ctl {
							case 1:
								cd.SetOwnerReferences([]metav1.OwnerReference{{UID: owner.UID, Controller: ptr.To(true)}})
							case 2:
								cd.SetOwnerReferences([]metav1.OwnerReference{{UID: "someone-else", Kind: "Other", Name: "o", Controller: ptr.To(true)}})
							}
							if om&(1<<i) != 0 {
								observed[ResourceName(nm)] = ComposedResourceState{Resource: cd}
							}
							if dm&(1<<i) != 0 {
								desired[ResourceName(nm)] = ComposedResourceState{Resource: cd}
							}
						}
						writes := 0
						deleted := map[string]bool{}
						var log []string
						hit := func() error {
							writes++
							if ferr != nil && writes-1 == at {
								return ferr
							}
							return nil
						}
						c := &test.MockClient{
							MockUpdate: func(_ context.Context, o client.Object, _ ...client.UpdateOption) error {
								err := hit()
								log = append(log, fmt.Sprintf("update %s -> %v", o.GetName(), err))
								return err
							},
							MockDelete: func(_ context.Context, o client.Object, _ ...client.DeleteOption) error {
								err := hit()
								log = append(log, fmt.Sprintf("delete %s -> %v", o.GetName(), err))
								if err == nil || kerrors.IsNotFound(err) {
									deleted[o.GetName()] = true
								}
								return err
							},
						}
						err := NewDeletingComposedResourceGarbageCollector(c).GarbageCollectComposedResources(context.Background(), owner, observed, desired)
						desc := fmt.Sprintf("observed=%v desired=%v controller=%s fault=%s at write %d; calls: %v", keysOfStates(observed), keysOfStates(desired), []string{"none", "the XR", "someone else"}[ctl], fname, at, log)
						for i, nm := range names {
							isObs, isDes := om&(1<<i) != 0, dm&(1<<i) != 0
							switch {
							case deleted["thing-"+nm] && isDes:
								t.Fatalf("VERIF-REPRODUCED: %s: deleted %s, which is still desired", desc, nm)
							case deleted["thing-"+nm] && ctl == 2:
								t.Fatalf("VERIF-REPRODUCED: %s: deleted %s, which somebody else controls", desc, nm)
							case err == nil && isObs && !isDes && !deleted["thing-"+nm]:
								t.Fatalf("VERIF-REPRODUCED: %s: reports success but %s (observed, no longer desired) was not deleted; its reference is dropped next, so it leaks", desc, nm)
							}
						}
					}
				}
			}
		}
	}
	t.Logf("searched %d (observed, desired, controller, fault) combinations: contract holds on all of them", n)
}

func keysOfStates(s ComposedResourceStates) []string {
	var out []string
	for _, k := range []string{"a", "b", "c"} {
		if _, ok := s[ResourceName(k)]; ok {
			out = append(out, k)
		}
	}
	return out
}
