package claim

// verif:search
// Replay concretiser for obligations of claim.withoutKeys (C07): every input map over the keys
// {a, b, c} (values include nested maps that repeat a key name) and every key list over
// {a, b, c, zz} with at most 3 entries (duplicates allowed); the result has exactly the input's
// keys that are not listed, with the input's values, and the input is left untouched.

import (
	"fmt"
	"reflect"
	"testing"
)

func TestVerifReplay(t *testing.T) {
	universe := []string{"a", "b", "c"}
	vals := map[string]any{"a": "va", "b": map[string]any{"a": "nested", "x": int64(1)}, "c": []any{"a", "b"}}
	var keyLists [][]string
	var gen func(cur []string, n int)
	gen = func(cur []string, n int) {
		keyLists = append(keyLists, append([]string(nil), cur...))
		if n == 0 {
			return
		}
		for _, k := range []string{"a", "b", "c", "zz"} {
			gen(append(cur, k), n-1)
		}
	}
	gen(nil, 3)
	n := 0
	for m := 0; m < 1<<len(universe); m++ {
		for _, keys := range keyLists {
			n++
			in := map[string]any{}
			for i, k := range universe {
				if m&(1<<i) != 0 {
					in[k] = vals[k]
				}
			}
			before := fmt.Sprintf("%v", in)
			want := map[string]any{}
			for k, v := range in {
				listed := false
				for _, x := range keys {
					if x == k {
						listed = true
					}
				}
				if !listed {
					want[k] = v
				}
			}
			got := withoutKeys(in, keys...)
			if !reflect.DeepEqual(got, want) {
				t.Fatalf("VERIF-REPRODUCED: withoutKeys(%s, %v) = %v, want %v", before, keys, got, want)
			}
			if after := fmt.Sprintf("%v", in); after != before {
				t.Fatalf("VERIF-REPRODUCED: withoutKeys(%s, %v) changed its input to %s", before, keys, after)
			}
		}
	}
	t.Logf("searched %d (map, key list) combinations: contract holds on all of them", n)
}
