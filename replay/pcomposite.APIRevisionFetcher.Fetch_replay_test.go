package composite

// verif:search
// Replay concretiser for obligations of (*APIRevisionFetcher).Fetch (C12): XRs with update policy
// unset/Automatic/Manual, referencing no revision / revision 1 / revision 2, over revision
// lists of at most 2 controlled revisions (numbers 1..2, current content hash or not), with the
// Get of a pinned revision succeeding or returning NotFound. A Manual XR that references a
// revision is never moved and gets exactly that revision or an error; otherwise the XR is handed
// (and moved to) the highest-numbered controlled revision.

import (
	"context"
	"fmt"
	"testing"

	corev1 "k8s.io/api/core/v1"
	kerrors "k8s.io/apimachinery/pkg/api/errors"
	metav1 "k8s.io/apimachinery/pkg/apis/meta/v1"
	"k8s.io/apimachinery/pkg/runtime/schema"
	"k8s.io/apimachinery/pkg/types"
	"k8s.io/utils/ptr"
	"sigs.k8s.io/controller-runtime/pkg/client"

	xpv1 "github.com/crossplane/crossplane-runtime/apis/common/v1"
	"github.com/crossplane/crossplane-runtime/pkg/resource"
	"github.com/crossplane/crossplane-runtime/pkg/resource/fake"
	"github.com/crossplane/crossplane-runtime/pkg/test"

	v1 "github.com/crossplane/crossplane/apis/apiextensions/v1"
)

func TestVerifReplay(t *testing.T) {
	comp := &v1.Composition{ObjectMeta: metav1.ObjectMeta{Name: "comp", UID: types.UID("comp-uid")}}
	hash := comp.Hash()
	if len(hash) > 63 {
		hash = hash[:63]
	}
	mkRev := func(num int64, current bool) v1.CompositionRevision {
		r := v1.CompositionRevision{ObjectMeta: metav1.ObjectMeta{Name: fmt.Sprintf("comp-rev%d", num), Labels: map[string]string{v1.LabelCompositionName: "comp", v1.LabelCompositionHash: "other"},
			OwnerReferences: []metav1.OwnerReference{{UID: comp.UID, Name: "comp", Controller: ptr.To(true)}}}}
		r.Spec.Revision = num
		if current {
			r.Labels[v1.LabelCompositionHash] = hash
		}
		return r
	}
	lists := map[string][]v1.CompositionRevision{
		"[rev1]":                    {mkRev(1, true)},
		"[rev1(current hash) rev2]": {mkRev(1, true), mkRev(2, false)},
		"[rev2 rev1(current hash)]": {mkRev(2, false), mkRev(1, true)},
		"[rev1 rev2(current hash)]": {mkRev(1, false), mkRev(2, true)},
	}
	manual, automatic := xpv1.UpdateManual, xpv1.UpdateAutomatic
	policies := map[string]*xpv1.UpdatePolicy{"unset": nil, "Automatic": &automatic, "Manual": &manual}
	n := 0
	for lname, list := range lists {
		for pname, pol := range policies {
			for _, ref := range []string{"", "comp-rev1", "comp-rev2"} {
				for _, pinnedGone := range []bool{false, true} {
					n++
					applied := ""
					c := &test.MockClient{
						MockGet: func(_ context.Context, key client.ObjectKey, o client.Object) error {
							switch obj := o.(type) {
							case *v1.Composition:
								*obj = *comp
							case *v1.CompositionRevision:
								if pinnedGone {
									return kerrors.NewNotFound(schema.GroupResource{Resource: "compositionrevisions"}, key.Name)
								}
								for _, r := range list {
									if r.Name == key.Name {
										*obj = r
										return nil
									}
								}
								return kerrors.NewNotFound(schema.GroupResource{Resource: "compositionrevisions"}, key.Name)
							}
							return nil
						},
						MockList: func(_ context.Context, l client.ObjectList, _ ...client.ListOption) error {
							l.(*v1.CompositionRevisionList).Items = append([]v1.CompositionRevision(nil), list...)
							return nil
						},
					}
					xr := &fake.Composite{}
					xr.SetCompositionReference(&corev1.ObjectReference{Name: "comp"})
					xr.SetCompositionUpdatePolicy(pol)
					if ref != "" {
						xr.SetCompositionRevisionReference(&corev1.LocalObjectReference{Name: ref})
					}
					ca := resource.ClientApplicator{Client: c, Applicator: resource.ApplyFn(func(_ context.Context, o client.Object, _ ...resource.ApplyOption) error {
						if r := o.(resource.Composite).GetCompositionRevisionReference(); r != nil {
							applied = r.Name
						}
						return nil
					})}
					got, err := NewAPIRevisionFetcher(ca).Fetch(context.Background(), xr)
					var highest *v1.CompositionRevision
					for i := range list {
						if highest == nil || list[i].Spec.Revision > highest.Spec.Revision {
							highest = &list[i]
						}
					}
					desc := fmt.Sprintf("revisions=%s policy=%s xr references %q pinned-revision-get-notfound=%v", lname, pname, ref, pinnedGone)
					nowRef := ""
					if r := xr.GetCompositionRevisionReference(); r != nil {
						nowRef = r.Name
					}
					if pname == "Manual" && ref != "" {
						if nowRef != ref || applied != "" {
							t.Fatalf("VERIF-REPRODUCED: %s: a Manual XR was moved to %q (applied %q)", desc, nowRef, applied)
						}
						if err == nil && got.GetName() != ref {
							t.Fatalf("VERIF-REPRODUCED: %s: a Manual XR was handed revision %q", desc, got.GetName())
						}
						continue
					}
					if err != nil {
						t.Fatalf("VERIF-REPRODUCED: %s: unexpected error %v", desc, err)
					}
					if got.GetName() != highest.GetName() || nowRef != highest.GetName() {
						t.Fatalf("VERIF-REPRODUCED: %s: handed %q and now references %q, the highest-numbered revision is %q", desc, got.GetName(), nowRef, highest.GetName())
					}
				}
			}
		}
	}
	t.Logf("searched %d (revision list, XR) combinations: contract holds on all of them", n)
}
