package engine

// verif:search
// Replay concretiser for obligations of (*StoppableSource).Stop (C13): a source is started, then
// stopped up to three times while the informer lookup or the handler removal fails at any
// subset of those attempts. Whenever Stop reports success the handler is no longer registered
// with the informer; a failed Stop leaves the source stoppable again.

import (
	"context"
	"errors"
	"fmt"
	"testing"

	"k8s.io/apimachinery/pkg/apis/meta/v1/unstructured"
	kcache "k8s.io/client-go/tools/cache"
	"sigs.k8s.io/controller-runtime/pkg/cache"
	"sigs.k8s.io/controller-runtime/pkg/client"
)

type verifReg struct{ id int }

func (verifReg) HasSynced() bool { return true }

func TestVerifReplay(t *testing.T) {
	n := 0
	for getFail := 0; getFail < 8; getFail++ { // bit k: GetInformer fails at the k-th Stop
		for rmFail := 0; rmFail < 8; rmFail++ { // bit k: RemoveEventHandler fails at the k-th Stop
			n++
			live := map[int]bool{}
			next := 0
			attempt := -1
			inf := &MockInformer{
				MockAddEventHandler: func(_ kcache.ResourceEventHandler) (kcache.ResourceEventHandlerRegistration, error) {
					next++
					live[next] = true
					return verifReg{next}, nil
				},
				MockRemoveEventHandler: func(h kcache.ResourceEventHandlerRegistration) error {
					if rmFail&(1<<attempt) != 0 {
						return errors.New("cannot remove")
					}
					r, ok := h.(verifReg)
					if !ok || !live[r.id] {
						return errors.New("unknown registration")
					}
					delete(live, r.id)
					return nil
				},
			}
			infs := &MockTrackingInformers{MockGetInformer: func(_ context.Context, _ client.Object, _ ...cache.InformerGetOption) (cache.Informer, error) {
				if attempt >= 0 && getFail&(1<<attempt) != 0 {
					return nil, errors.New("cannot get informer")
				}
				return inf, nil
			}}
			s := NewStoppableSource(infs, &unstructured.Unstructured{}, nil)
			if err := s.Start(context.Background(), nil); err != nil {
				t.Fatalf("start: %v", err)
			}
			var log []string
			for attempt = 0; attempt < 3; attempt++ {
				err := s.Stop(context.Background())
				log = append(log, fmt.Sprintf("Stop#%d -> %v (handlers still registered: %d)", attempt+1, err, len(live)))
				if err == nil && len(live) > 0 {
					t.Fatalf("VERIF-REPRODUCED: informer lookup fails at attempts %03b, removal fails at attempts %03b (bit k = attempt k+1): %v: Stop reported success but the event handler is still registered, so the engine forgets a live watch", getFail, rmFail, log)
				}
			}
		}
	}
	t.Logf("searched %d fault patterns: contract holds on all of them", n)
}
