package composite

// verif:search
// Replay concretiser for obligations of (*FunctionComposer).Compose (C01, C03, C04, C05, C09):
// pipelines of 1..3 scripted steps (each adds its own desired resource to what it was handed and
// may carry input, credentials, a warning, a fatal result with or without message, or fail),
// an XR that references the resources "keep" (still desired by step 1) and "old" (desired by
// nobody), and one API fault at any write. Checked against the property clauses restated in Go:
//  - a failing step or a fatal result means no write at all (C03);
//  - every step sees the same observed state, the desired state and context of the step before
//    it (empty for the first), and only its own input and credentials (C04);
//  - the garbage collector deletes exactly "old", and only after a clean pipeline (C03);
//  - no composed resource is applied before the XR's references were persisted, and the
//    persisted references name every desired resource (C01);
//  - every desired resource is reported, applied or not (C05).

import (
	"context"
	"errors"
	"fmt"
	"sort"
	"strings"
	"testing"

	corev1 "k8s.io/api/core/v1"
	kerrors "k8s.io/apimachinery/pkg/api/errors"
	metav1 "k8s.io/apimachinery/pkg/apis/meta/v1"
	"k8s.io/apimachinery/pkg/runtime"
	"k8s.io/apimachinery/pkg/runtime/schema"
	"k8s.io/apimachinery/pkg/types"
	"k8s.io/apimachinery/pkg/util/validation/field"
	"sigs.k8s.io/controller-runtime/pkg/client"

	xpv1 "github.com/crossplane/crossplane-runtime/apis/common/v1"
	"github.com/crossplane/crossplane-runtime/pkg/fieldpath"
	"github.com/crossplane/crossplane-runtime/pkg/reconciler/managed"
	"github.com/crossplane/crossplane-runtime/pkg/resource"
	"github.com/crossplane/crossplane-runtime/pkg/resource/unstructured/composed"
	"github.com/crossplane/crossplane-runtime/pkg/resource/unstructured/composite"
	"github.com/crossplane/crossplane-runtime/pkg/test"

	fnv1 "github.com/crossplane/crossplane/apis/apiextensions/fn/proto/v1"
	v1 "github.com/crossplane/crossplane/apis/apiextensions/v1"
	"github.com/crossplane/crossplane/internal/xcrd"
)

func TestVerifReplay(t *testing.T) {
	behaviours := []string{"ok", "ok+input", "ok+creds", "ok-no-context", "warning", "fatal", "fatal-no-message", "error"}
	var pipelines [][]string
	var gen func(cur []string, n int)
	gen = func(cur []string, n int) {
		if len(cur) > 0 {
			pipelines = append(pipelines, append([]string(nil), cur...))
		}
		if n == 0 {
			return
		}
		for _, b := range behaviours {
			gen(append(cur, b), n-1)
		}
	}
	gen(nil, 2)
	pipelines = append(pipelines, []string{"ok+input", "ok", "ok+creds"}, []string{"ok+creds", "ok", "ok+input"}, []string{"ok", "ok", "fatal-no-message"}, []string{"ok", "error", "ok"}, []string{"ok", "ok-no-context", "ok"})
	faults := []string{"none", "conflict@update", "error@delete", "error@patch-xr", "error@patch-composed", "invalid@patch-composed"}
	n := 0
	for _, pl := range pipelines {
		for _, fault := range faults {
			n++
			xr := composite.New()
			xr.SetAPIVersion("example.org/v1")
			xr.SetKind("XR")
			xr.SetName("parent-xr")
			xr.SetUID(types.UID("xr-uid"))
			xr.SetLabels(map[string]string{xcrd.LabelKeyNamePrefixForComposed: "parent-xr"})
			existing := func(rn string) *composed.Unstructured {
				cd := composed.New()
				cd.SetAPIVersion("example.org/v1")
				cd.SetKind("Composed")
				cd.SetName("parent-xr-" + rn)
				SetCompositionResourceName(cd, ResourceName(rn))
				ctrl := true
				cd.SetOwnerReferences([]metav1.OwnerReference{{APIVersion: "example.org/v1", Kind: "XR", Name: "parent-xr", UID: "xr-uid", Controller: &ctrl}})
				if rn == "keep" {
					// still there, but on its way out (a finalizer holds it): functions must still see it
					now := metav1.Now()
					cd.SetDeletionTimestamp(&now)
					cd.SetFinalizers([]string{"example.org/hold"})
				}
				return cd
			}
			var writes []string
			var statusPatched bool
			var firstDesiredNotEmpty string
			var patchedConditions []string
			var patchedNote string
			refsPersisted := false
			var persistedRefs []string
			faulted := false
			hit := func(kind string) error {
				if faulted || !strings.HasSuffix(fault, "@"+kind) {
					return nil
				}
				faulted = true
				switch {
				case strings.HasPrefix(fault, "conflict"):
					return kerrors.NewConflict(schema.GroupResource{Resource: "composed"}, "x", errors.New("conflict"))
				case strings.HasPrefix(fault, "invalid"):
					return kerrors.NewInvalid(schema.GroupKind{Kind: "Composed"}, "x", field.ErrorList{field.Invalid(field.NewPath("spec"), nil, "bad")})
				}
				return errors.New("boom")
			}
			c := &test.MockClient{
				MockGet: func(_ context.Context, key client.ObjectKey, o client.Object) error {
					if _, ok := o.(*corev1.Secret); ok {
						o.(*corev1.Secret).Data = map[string][]byte{"k": []byte("v-" + key.Name)}
						return nil
					}
					return kerrors.NewNotFound(schema.GroupResource{Resource: "things"}, key.Name) // names are free
				},
				MockUpdate: func(_ context.Context, o client.Object, _ ...client.UpdateOption) error {
					writes = append(writes, "update "+o.GetName())
					return hit("update")
				},
				MockDelete: func(_ context.Context, o client.Object, _ ...client.DeleteOption) error {
					writes = append(writes, "delete "+o.GetName())
					return hit("delete")
				},
				MockPatch: func(_ context.Context, o client.Object, _ client.Patch, _ ...client.PatchOption) error {
					if o.GetObjectKind().GroupVersionKind().Kind == "XR" {
						writes = append(writes, "patch-xr")
						if err := hit("patch-xr"); err != nil {
							return err
						}
						refsPersisted = true
						persistedRefs = nil
						for _, r := range o.(resource.ComposedResourcesReferencer).GetResourceReferences() {
							persistedRefs = append(persistedRefs, r.Name)
						}
						return nil
					}
					writes = append(writes, fmt.Sprintf("apply %s (refs persisted: %v)", o.GetName(), refsPersisted))
					return hit("patch-composed")
				},
				MockStatusPatch: func(_ context.Context, o client.Object, _ client.Patch, _ ...client.SubResourcePatchOption) error {
					writes = append(writes, "status-patch-xr")
					if u, ok := o.(*composite.Unstructured); ok {
						statusPatched = true
						for _, cnd := range u.GetConditions() {
							patchedConditions = append(patchedConditions, string(cnd.Type)+"="+string(cnd.Status))
						}
						patchedNote, _ = fieldpath.Pave(u.Object).GetString("status.note")
					}
					return nil
				},
			}
			type seen struct {
				desired, creds []string
				input          string
				ctxKeys        []string
				observed       []string
			}
			var reqs []seen
			keys := func(m map[string]*fnv1.Resource) []string {
				var out []string
				for k := range m {
					out = append(out, k)
				}
				sort.Strings(out)
				return out
			}
			runner := FunctionRunnerFn(func(_ context.Context, name string, req *fnv1.RunFunctionRequest) (*fnv1.RunFunctionResponse, error) {
				var i int
				fmt.Sscanf(name, "fn-%d", &i)
				s := seen{desired: keys(req.GetDesired().GetResources()), observed: keys(req.GetObserved().GetResources())}
				for k := range req.GetCredentials() {
					s.creds = append(s.creds, k)
				}
				sort.Strings(s.creds)
				if req.GetInput() != nil {
					s.input = req.GetInput().GetFields()["step"].GetStringValue()
				}
				for k := range req.GetContext().GetFields() {
					s.ctxKeys = append(s.ctxKeys, k)
				}
				sort.Strings(s.ctxKeys)
				reqs = append(reqs, s)
				if i == 0 && (req.GetDesired().GetComposite() != nil || len(req.GetDesired().GetResources()) != 0) {
					firstDesiredNotEmpty = fmt.Sprint(req.GetDesired())
				}
				b := pl[i]
				if b == "error" {
					return nil, errors.New("function unavailable")
				}
				// like SDK functions: pass the desired state it was handed through, add its own
				d := &fnv1.State{Resources: map[string]*fnv1.Resource{}, Composite: req.GetDesired().GetComposite()}
				if i == 0 {
					// the first function also writes the XR's status - a field of its own, and (which
					// it has no business doing) a Ready condition
					d.Composite = &fnv1.Resource{Resource: MustStruct(map[string]any{"apiVersion": "example.org/v1", "kind": "XThing", "status": map[string]any{
						"note":       "written-by-the-function",
						"conditions": []any{map[string]any{"type": "Ready", "status": "True", "reason": "Available", "lastTransitionTime": "2024-01-01T00:00:00Z"}},
					}}), Ready: fnv1.Ready_READY_TRUE, ConnectionDetails: req.GetDesired().GetComposite().GetConnectionDetails()} // ... and explicitly marks the XR ready
				}
				if i > 0 && i == len(pl)-1 && d.Composite != nil {
					// the last of several functions rebuilds the desired XR and has no opinion on its readiness
					d.Composite = &fnv1.Resource{Resource: d.Composite.GetResource(), ConnectionDetails: d.Composite.GetConnectionDetails()}
				}
				for k, v := range req.GetDesired().GetResources() {
					d.Resources[k] = v
				}
				rn := fmt.Sprintf("r%d", i)
				if i == 0 {
					rn = "keep"
				}
				d.Resources[rn] = &fnv1.Resource{Resource: MustStruct(map[string]any{"apiVersion": "example.org/v1", "kind": "Composed"}), Ready: fnv1.Ready_READY_TRUE}
				rsp := &fnv1.RunFunctionResponse{Desired: d, Context: MustStruct(map[string]any{fmt.Sprintf("from-step-%d", i): "x"})}
				switch b {
				case "ok-no-context":
					rsp.Context = nil
				case "warning":
					rsp.Results = []*fnv1.Result{{Severity: fnv1.Severity_SEVERITY_WARNING, Message: "careful"}}
				case "fatal":
					rsp.Results = []*fnv1.Result{{Severity: fnv1.Severity_SEVERITY_FATAL, Message: "stop"}}
				case "fatal-no-message":
					rsp.Results = []*fnv1.Result{{Severity: fnv1.Severity_SEVERITY_FATAL}}
				}
				return rsp, nil
			})
			fc := NewFunctionComposer(c, c, runner,
				WithCompositeConnectionDetailsFetcher(ConnectionDetailsFetcherFn(func(_ context.Context, _ resource.ConnectionSecretOwner) (managed.ConnectionDetails, error) {
					return managed.ConnectionDetails{"stored": []byte("in-the-xr-secret")}, nil
				})),
				WithComposedResourceObserver(ComposedResourceObserverFn(func(_ context.Context, _ resource.Composite) (ComposedResourceStates, error) {
					return ComposedResourceStates{"keep": {Resource: existing("keep")}, "old": {Resource: existing("old")}}, nil
				})),
			)
			var steps []v1.PipelineStep
			for i, b := range pl {
				st := v1.PipelineStep{Step: fmt.Sprintf("step-%d", i), FunctionRef: v1.FunctionReference{Name: fmt.Sprintf("fn-%d", i)}}
				if b == "ok+input" {
					st.Input = &runtime.RawExtension{Raw: []byte(fmt.Sprintf(`{"step":"input-of-step-%d"}`, i))}
				}
				if b == "ok+creds" {
					st.Credentials = []v1.FunctionCredentials{{Name: fmt.Sprintf("cred-%d", i), Source: v1.FunctionCredentialsSourceSecret, SecretRef: &xpv1.SecretReference{Namespace: "ns", Name: fmt.Sprintf("secret-%d", i)}}}
				}
				steps = append(steps, st)
			}
			res, err := fc.Compose(context.Background(), xr, CompositionRequest{Revision: &v1.CompositionRevision{Spec: v1.CompositionRevisionSpec{Pipeline: steps}}})
			desc := fmt.Sprintf("pipeline=%v fault=%s: function calls=%d writes=%v err=%v", pl, fault, len(reqs), writes, err)
			// ---- what each step was sent (C04) ----
			stopAt := len(pl) // index of the first step that fails or is fatal
			for i, b := range pl {
				if b == "error" || strings.HasPrefix(b, "fatal") {
					stopAt = i
					break
				}
			}
			wantCalls := stopAt + 1
			if stopAt == len(pl) {
				wantCalls = len(pl)
			}
			if len(reqs) != wantCalls {
				t.Fatalf("VERIF-REPRODUCED: %s: want %d function calls (no step runs after a failed or fatal one, every step before it does)", desc, wantCalls)
			}
			for i, s := range reqs {
				var wantDesired, wantCtx, wantCreds []string
				for j := 0; j < i; j++ {
					if j == 0 {
						wantDesired = append(wantDesired, "keep")
					} else {
						wantDesired = append(wantDesired, fmt.Sprintf("r%d", j))
					}
				}
				sort.Strings(wantDesired)
				if i > 0 && pl[i-1] != "ok-no-context" {
					wantCtx = []string{fmt.Sprintf("from-step-%d", i-1)}
				}
				wantInput := ""
				if pl[i] == "ok+input" {
					wantInput = fmt.Sprintf("input-of-step-%d", i)
				}
				if pl[i] == "ok+creds" {
					wantCreds = []string{fmt.Sprintf("cred-%d", i)}
				}
				switch {
				case fmt.Sprint(s.observed) != "[keep old]":
					t.Fatalf("VERIF-REPRODUCED: %s: step %d was sent observed resources %v, want [keep old]", desc, i, s.observed)
				case fmt.Sprint(s.desired) != fmt.Sprint(wantDesired):
					t.Fatalf("VERIF-REPRODUCED: %s: step %d was sent desired resources %v, the previous step returned %v (empty for the first step)", desc, i, s.desired, wantDesired)
				case fmt.Sprint(s.ctxKeys) != fmt.Sprint(wantCtx):
					t.Fatalf("VERIF-REPRODUCED: %s: step %d was sent context %v, the previous step returned %v", desc, i, s.ctxKeys, wantCtx)
				case s.input != wantInput:
					t.Fatalf("VERIF-REPRODUCED: %s: step %d was sent input %q, its own input is %q", desc, i, s.input, wantInput)
				case fmt.Sprint(s.creds) != fmt.Sprint(wantCreds):
					t.Fatalf("VERIF-REPRODUCED: %s: step %d was sent credentials %v, its own are %v", desc, i, s.creds, wantCreds)
				}
			}
			// ---- failing pipeline: nothing written (C03) ----
			if stopAt < len(pl) {
				if err == nil || len(writes) != 0 {
					t.Fatalf("VERIF-REPRODUCED: %s: the pipeline failed at step %d (%s) but the reconcile wrote / reported success", desc, stopAt, pl[stopAt])
				}
				continue
			}
			// ---- clean pipeline ----
			var wantRefs []string
			for i := range pl {
				if i == 0 {
					wantRefs = append(wantRefs, "parent-xr-keep")
				}
			}
			for _, w := range writes {
				if strings.HasPrefix(w, "delete ") && w != "delete parent-xr-old" {
					t.Fatalf("VERIF-REPRODUCED: %s: %q, but only \"old\" is observed and no longer desired", desc, w)
				}
				if strings.HasPrefix(w, "apply ") && strings.HasSuffix(w, "(refs persisted: false)") {
					t.Fatalf("VERIF-REPRODUCED: %s: a composed resource was applied before the XR's references were persisted", desc)
				}
			}
			if refsPersisted {
				deletedOld := false
				for _, w := range writes {
					if w == "delete parent-xr-old" {
						deletedOld = true
					}
					if w == "patch-xr" && !deletedOld {
						t.Fatalf("VERIF-REPRODUCED: %s: the references (without \"old\") were persisted before \"old\" was deleted: if anything fails now it leaks", desc)
					}
				}
				found := false
				for _, r := range persistedRefs {
					if r == "parent-xr-keep" {
						found = true
					}
				}
				if !found || len(persistedRefs) != len(pl) {
					t.Fatalf("VERIF-REPRODUCED: %s: persisted references %v do not name every desired resource (%d desired, \"keep\" among them)", desc, persistedRefs, len(pl))
				}
			}
			if firstDesiredNotEmpty != "" {
				t.Fatalf("VERIF-REPRODUCED: %s: the first step was handed the desired state %s, want an empty one (nothing a function did not produce may enter the pipeline)", desc, firstDesiredNotEmpty)
			}
			if err == nil {
				switch {
				case len(pl) == 1 && (res.Composite.Ready == nil || !*res.Composite.Ready):
					t.Fatalf("VERIF-REPRODUCED: %s: the only function marked the XR ready, Compose reports Composite.Ready=%v", desc, res.Composite.Ready)
				case len(pl) > 1 && res.Composite.Ready != nil:
					t.Fatalf("VERIF-REPRODUCED: %s: the last function returned a desired XR without an explicit readiness, Compose reports Composite.Ready=%v (an earlier step's opinion the last step did not carry over)", desc, *res.Composite.Ready)
				}
			}
			if statusPatched && len(patchedConditions) > 0 {
				t.Fatalf("VERIF-REPRODUCED: %s: a function returned a desired XR whose status carries a Ready=True condition, and the status patch applied to the XR carries conditions %v: the function wrote a system condition directly", desc, patchedConditions)
			}
			if statusPatched && patchedNote != "written-by-the-function" {
				t.Fatalf("VERIF-REPRODUCED: %s: the status field the function set on the desired XR is not in the status patch (status.note = %q)", desc, patchedNote)
			}
			if err == nil && len(res.Composed) != len(pl) {
				t.Fatalf("VERIF-REPRODUCED: %s: %d desired resources but %d reported (an unapplied resource must be reported as not synced)", desc, len(pl), len(res.Composed))
			}
			if err == nil {
				if _, leaked := res.ConnectionDetails["stored"]; leaked {
					t.Fatalf("VERIF-REPRODUCED: %s: the XR's connection details contain a key only its stored secret had - not produced by the composition", desc)
				}
			}
			_ = wantRefs
		}
	}
	t.Logf("searched %d (pipeline, fault) combinations: contract holds on all of them", n)
}
