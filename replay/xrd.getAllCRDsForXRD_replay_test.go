package xrd

// verif:search
// Replay concretiser for obligations of xrd.getAllCRDsForXRD (C11): XRDs without a claim, with
// a proper claim, and with claim names that collide with the composite's names in each of the
// four name fields; an XRD whose claim CRD cannot be derived must be an error, otherwise both
// CRDs (one without a claim) are returned.

import (
	"testing"

	extv1 "k8s.io/apiextensions-apiserver/pkg/apis/apiextensions/v1"
	metav1 "k8s.io/apimachinery/pkg/apis/meta/v1"
	"k8s.io/apimachinery/pkg/runtime"

	v1 "github.com/crossplane/crossplane/apis/apiextensions/v1"
	"github.com/crossplane/crossplane/internal/xcrd"
)

func TestVerifReplay(t *testing.T) {
	mk := func(claim *extv1.CustomResourceDefinitionNames) *v1.CompositeResourceDefinition {
		return &v1.CompositeResourceDefinition{
			ObjectMeta: metav1.ObjectMeta{Name: "xthings.example.org", UID: "uid"},
			Spec: v1.CompositeResourceDefinitionSpec{
				Group:      "example.org",
				Names:      extv1.CustomResourceDefinitionNames{Kind: "XThing", ListKind: "XThingList", Plural: "xthings", Singular: "xthing"},
				ClaimNames: claim,
				Versions: []v1.CompositeResourceDefinitionVersion{{Name: "v1", Served: true, Referenceable: true,
					Schema: &v1.CompositeResourceValidation{OpenAPIV3Schema: runtime.RawExtension{Raw: []byte(`{"type":"object","properties":{"spec":{"type":"object"}}}`)}}}},
			},
		}
	}
	cases := map[string]*extv1.CustomResourceDefinitionNames{
		"no claim":                nil,
		"proper claim":            {Kind: "Thing", ListKind: "ThingList", Plural: "things", Singular: "thing"},
		"claim kind collides":     {Kind: "XThing", ListKind: "ThingList", Plural: "things", Singular: "thing"},
		"claim plural collides":   {Kind: "Thing", ListKind: "ThingList", Plural: "xthings", Singular: "thing"},
		"claim singular collides": {Kind: "Thing", ListKind: "ThingList", Plural: "things", Singular: "xthing"},
		"claim listKind collides": {Kind: "Thing", ListKind: "XThingList", Plural: "things", Singular: "thing"},
	}
	for name, claim := range cases {
		in := mk(claim)
		_, claimErr := xcrd.ForCompositeResourceClaim(in)
		crds, err := getAllCRDsForXRD(in)
		switch {
		case claim != nil && claimErr != nil && err == nil:
			t.Fatalf("VERIF-REPRODUCED: XRD with %s (claim names %+v): the claim CRD cannot be derived (%v) but getAllCRDsForXRD reports no error and returns %d CRD(s), so the XRD would be admitted", name, *claim, claimErr, len(crds))
		case claim != nil && claimErr == nil && (err != nil || len(crds) != 2):
			t.Fatalf("VERIF-REPRODUCED: XRD with %s: want both CRDs, got %d (err %v)", name, len(crds), err)
		case claim == nil && (err != nil || len(crds) != 1):
			t.Fatalf("VERIF-REPRODUCED: XRD with %s: want the composite CRD only, got %d (err %v)", name, len(crds), err)
		}
	}
	t.Logf("searched %d XRDs: contract holds on all of them", len(cases))
}
