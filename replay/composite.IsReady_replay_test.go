package composite

// verif:search
// Replay concretiser for obligations of composite.IsReady (C05): every list of at most 3
// readiness checks drawn from {MatchCondition Ready=True, MatchString status.state==ACTIVE,
// MatchTrue status.ok, None} against composed resources with every combination of
// (Ready condition true/false, state ACTIVE/other, ok true/false); the resource is ready iff
// every check is satisfied (no checks: iff its Ready condition is true).

import (
	"context"
	"fmt"
	"testing"

	corev1 "k8s.io/api/core/v1"

	xpv1 "github.com/crossplane/crossplane-runtime/apis/common/v1"
	"github.com/crossplane/crossplane-runtime/pkg/fieldpath"
	"github.com/crossplane/crossplane-runtime/pkg/resource/unstructured/composed"
)

func TestVerifReplay(t *testing.T) {
	str := "ACTIVE"
	checks := []ReadinessCheck{
		{Type: ReadinessCheckTypeMatchCondition, MatchCondition: &MatchConditionReadinessCheck{Type: xpv1.TypeReady, Status: corev1.ConditionTrue}},
		{Type: ReadinessCheckTypeMatchString, FieldPath: ptrTo("status.state"), MatchString: &str},
		{Type: ReadinessCheckTypeMatchTrue, FieldPath: ptrTo("status.ok")},
		{Type: ReadinessCheckTypeNone},
	}
	names := []string{"MatchCondition(Ready=True)", "MatchString(status.state==ACTIVE)", "MatchTrue(status.ok)", "None"}
	var lists [][]int
	var gen func(cur []int, n int)
	gen = func(cur []int, n int) {
		lists = append(lists, append([]int(nil), cur...))
		if n == 0 {
			return
		}
		for i := range checks {
			gen(append(cur, i), n-1)
		}
	}
	gen(nil, 3)
	n := 0
	for _, l := range lists {
		for _, readyCond := range []bool{true, false} {
			for _, active := range []bool{true, false} {
				for _, ok := range []bool{true, false} {
					n++
					cd := composed.New()
					if readyCond {
						cd.SetConditions(xpv1.Available())
					} else {
						cd.SetConditions(xpv1.Creating())
					}
					state := "PENDING"
					if active {
						state = "ACTIVE"
					}
					_ = fieldpath.Pave(cd.Object).SetValue("status.state", state)
					_ = fieldpath.Pave(cd.Object).SetValue("status.ok", ok)
					sat := []bool{readyCond, active, ok, true}
					want := true
					var rc []ReadinessCheck
					desc := ""
					for _, i := range l {
						rc = append(rc, checks[i])
						want = want && sat[i]
						desc += names[i] + " "
					}
					if len(l) == 0 {
						want = readyCond
					}
					got, err := IsReady(context.Background(), cd, rc...)
					if err != nil {
						t.Fatalf("VERIF-REPRODUCED: checks=[%s] resource(Ready=%v state=%s ok=%v): unexpected error %v", desc, readyCond, state, ok, err)
					}
					if got != want {
						t.Fatalf("VERIF-REPRODUCED: checks=[%s] resource(Ready=%v state=%s ok=%v): IsReady=%v, but every check satisfied is %v", desc, readyCond, state, ok, got, want)
					}
				}
			}
		}
	}
	t.Log(fmt.Sprintf("searched %d (check list, resource) combinations: contract holds on all of them", n))
}

func ptrTo[T any](v T) *T { return &v }
