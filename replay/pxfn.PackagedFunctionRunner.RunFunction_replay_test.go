package xfn

// verif:search
// Replay concretiser for obligations of (*BetaFallBackFunctionRunnerServiceClient).RunFunction and
// (*PackagedFunctionRunner).RunFunction (C03, C04): the real runner against a real gRPC server
// (the package's own test servers) that speaks v1 or only v1beta1 and answers with a response or
// with one of several gRPC errors. A response is reported iff an RPC produced one; a failed RPC
// is an error, never an empty response.

import (
	"context"
	"strings"
	"testing"

	"google.golang.org/grpc/codes"
	"google.golang.org/grpc/status"

	"github.com/crossplane/crossplane-runtime/pkg/test"

	fnv1 "github.com/crossplane/crossplane/apis/apiextensions/fn/proto/v1"
	fnv1beta1 "github.com/crossplane/crossplane/apis/apiextensions/fn/proto/v1beta1"
)

func TestVerifReplay(t *testing.T) {
	errs := map[string]error{
		"none":          nil,
		"internal":      status.Error(codes.Internal, "function blew up"),
		"unavailable":   status.Error(codes.Unavailable, "try later"),
		"unimplemented": status.Error(codes.Unimplemented, "no such method"),
		"aborted":       status.Error(codes.Aborted, "aborted"),
	}
	n := 0
	for _, beta := range []bool{false, true} {
		for name, e := range errs {
			n++
			var addr string
			var closer interface{ Close() error }
			if beta {
				s := &MockBetaFunctionServer{err: e}
				if e == nil {
					s.rsp = &fnv1beta1.RunFunctionResponse{Desired: &fnv1beta1.State{Resources: map[string]*fnv1beta1.Resource{"from-the-function": {}}}}
				}
				lis := NewBetaGRPCServer(t, s)
				addr, closer = lis.Addr().String(), lis
			} else {
				s := &MockFunctionServer{err: e}
				if e == nil {
					s.rsp = &fnv1.RunFunctionResponse{Desired: &fnv1.State{Resources: map[string]*fnv1.Resource{"from-the-function": {}}}}
				}
				lis := NewGRPCServer(t, s)
				addr, closer = lis.Addr().String(), lis
			}
			target := strings.Replace(addr, "127.0.0.1", "dns:///localhost", 1)
			r := NewPackagedFunctionRunner(&test.MockClient{MockList: NewListFn(target)})
			rsp, err := r.RunFunction(context.Background(), "cool-fn", &fnv1.RunFunctionRequest{Desired: &fnv1.State{Resources: map[string]*fnv1.Resource{"kept-by-earlier-steps": {}}}})
			_, _ = r.GarbageCollectConnectionsNow(context.Background())
			_ = closer.Close()
			desc := map[bool]string{false: "v1", true: "v1beta1-only"}[beta] + " function, RPC error " + name
			if e != nil && err == nil {
				t.Fatalf("VERIF-REPRODUCED: %s: RunFunction returned no error and the response %v - the composer takes it for a step that desires nothing and garbage collects every composed resource", desc, rsp)
			}
			if e == nil {
				if err != nil {
					t.Fatalf("%s: unexpected error %v", desc, err)
				}
				if _, ok := rsp.GetDesired().GetResources()["from-the-function"]; !ok {
					t.Fatalf("VERIF-REPRODUCED: %s: the response returned is not the function's (desired resources %v)", desc, rsp.GetDesired().GetResources())
				}
			}
		}
	}
	t.Logf("searched %d (protocol, RPC outcome) pairs: contract holds on all of them", n)
}
