package manager

// Replay concretiser for obligations of (*manager.Reconciler).Reconcile (properties C14, C02).
// Injected with `go test -overlay` by /verif/gowp; reads the witness values of the solver
// model from $VERIF_MODEL and drives the real Reconcile with a recording fake client.

import (
	"context"
	"encoding/json"
	"fmt"
	"os"
	"strconv"
	"testing"

	metav1 "k8s.io/apimachinery/pkg/apis/meta/v1"
	"k8s.io/apimachinery/pkg/types"
	"sigs.k8s.io/controller-runtime/pkg/client"
	"sigs.k8s.io/controller-runtime/pkg/reconcile"

	"github.com/crossplane/crossplane-runtime/pkg/event"
	"github.com/crossplane/crossplane-runtime/pkg/logging"
	"github.com/crossplane/crossplane-runtime/pkg/resource"
	"github.com/crossplane/crossplane-runtime/pkg/test"

	v1 "github.com/crossplane/crossplane/apis/pkg/v1"
	"github.com/crossplane/crossplane/internal/xpkg/fake"
)

type verifModel struct {
	Obligation string            `json:"obligation"`
	Label      string            `json:"label"`
	Values     map[string]string `json:"values"`
}

func (m verifModel) int(k string, def int64) int64 {
	if v, ok := m.Values[k]; ok {
		if n, err := strconv.ParseInt(v, 10, 64); err == nil {
			return n
		}
	}
	return def
}

func (m verifModel) bool(k string) bool { return m.Values[k] == "true" }

func TestVerifReplay(t *testing.T) {
	b, err := os.ReadFile(os.Getenv("VERIF_MODEL"))
	if err != nil {
		t.Skip("no model")
	}
	var m verifModel
	if err := json.Unmarshal(b, &m); err != nil {
		t.Fatal(err)
	}
	n := int(m.int("n", 0))
	if n < 0 {
		n = 0
	}
	if n > 8 {
		n = 8
	}
	limit := m.int("limit", 1)
	hasLimit := !m.bool("nolimit")
	current := "rev-new"
	type revT struct {
		name   string
		rev    int64
		active bool
	}
	var revs []revT
	for j := 0; j < n; j++ {
		r := revT{name: fmt.Sprintf("rev-%d", j), rev: m.int(fmt.Sprintf("rev[%d]", j), int64(j+1)), active: m.bool(fmt.Sprintf("active[%d]", j))}
		if m.bool(fmt.Sprintf("cur[%d]", j)) && current == "rev-new" {
			current = r.name
		}
		revs = append(revs, r)
	}
	var deleted []string
	type applied struct {
		name   string
		rev    int64
		active bool
		guards bool
	}
	var applies []applied
	state := map[string]*revT{}
	for i := range revs {
		state[revs[i].name] = &revs[i]
	}
	rec := &Reconciler{
		newPackage:             func() v1.Package { return &v1.Configuration{} },
		newPackageRevision:     func() v1.PackageRevision { return &v1.ConfigurationRevision{} },
		newPackageRevisionList: func() v1.PackageRevisionList { return &v1.ConfigurationRevisionList{} },
		client: resource.ClientApplicator{
			Client: &test.MockClient{
				MockGet: test.NewMockGetFn(nil, func(o client.Object) error {
					p := o.(*v1.Configuration)
					p.SetName("test")
					p.SetUID("pkg-uid")
					p.SetGroupVersionKind(v1.ConfigurationGroupVersionKind)
					if hasLimit {
						p.SetRevisionHistoryLimit(&limit)
					}
					return nil
				}),
				MockList: test.NewMockListFn(nil, func(o client.ObjectList) error {
					l := o.(*v1.ConfigurationRevisionList)
					for _, r := range revs {
						st := v1.PackageRevisionInactive
						if r.active {
							st = v1.PackageRevisionActive
						}
						l.Items = append(l.Items, v1.ConfigurationRevision{ObjectMeta: metav1.ObjectMeta{Name: r.name, UID: types.UID("uid-" + r.name)},
							Spec: v1.PackageRevisionSpec{Revision: r.rev, DesiredState: st}})
					}
					return nil
				}),
				MockStatusUpdate: test.NewMockSubResourceUpdateFn(nil),
				MockUpdate:       test.NewMockUpdateFn(nil),
				MockDelete: func(_ context.Context, o client.Object, _ ...client.DeleteOption) error {
					deleted = append(deleted, o.GetName())
					return nil
				},
			},
			Applicator: resource.ApplyFn(func(ctx context.Context, o client.Object, ao ...resource.ApplyOption) error {
				pr := o.(v1.PackageRevision)
				// does the option list refuse an object controlled by somebody else?
				other := &v1.ConfigurationRevision{}
				tr := true
				other.SetOwnerReferences([]metav1.OwnerReference{{UID: "somebody-else", Controller: &tr}})
				guards := false
				for _, fn := range ao {
					if fn(ctx, other, o.DeepCopyObject()) != nil {
						guards = true
					}
				}
				applies = append(applies, applied{name: pr.GetName(), rev: pr.GetRevision(), active: pr.GetDesiredState() == v1.PackageRevisionActive, guards: guards})
				if s, ok := state[pr.GetName()]; ok {
					s.active = pr.GetDesiredState() == v1.PackageRevisionActive
					s.rev = pr.GetRevision()
				}
				return nil
			}),
		},
		pkg:    &MockRevisioner{MockRevision: NewMockRevisionFn(current, nil)},
		config: &fake.MockConfigStore{MockPullSecretFor: fake.NewMockConfigStorePullSecretForFn("", "", nil)},
		log:    logging.NewNopLogger(),
		record: event.NewNopRecorder(),
	}
	func() {
		defer func() {
			if r := recover(); r != nil {
				t.Fatalf("VERIF-REPRODUCED: Reconcile panicked: %v (revisions=%+v limit=%d current=%s)", r, revs, limit, current)
			}
		}()
		_, err = rec.Reconcile(context.Background(), reconcile.Request{NamespacedName: types.NamespacedName{Name: "test"}})
	}()
	t.Logf("model: revisions=%+v limit=%d(has=%v) current=%s; deleted=%v applies=%+v err=%v", revs, limit, hasLimit, current, deleted, applies, err)
	switch m.Label {
	case "gc-not-current":
		for _, d := range deleted {
			if d == current {
				t.Fatalf("VERIF-REPRODUCED: history GC deleted the current revision %q (revisions=%+v limit=%d)", d, revs, limit)
			}
		}
	case "gc-limit":
		if len(deleted) > 0 && (!hasLimit || limit == 0 || int64(n) <= limit+1) {
			t.Fatalf("VERIF-REPRODUCED: history GC deleted %v although %d revisions do not exceed limit %d", deleted, n, limit)
		}
	case "gc-oldest":
		for _, d := range deleted {
			if d == current {
				continue
			}
			for _, r := range revs {
				if r.name != current && r.name != d && state[d] != nil && r.rev < state[d].rev {
					t.Fatalf("VERIF-REPRODUCED: history GC deleted %q (revision %d) although %q has a lower number %d", d, state[d].rev, r.name, r.rev)
				}
			}
		}
	case "single-active", "numbered-last":
		for _, a := range applies {
			if a.name != current {
				continue
			}
			for _, r := range revs {
				if r.name == current {
					continue
				}
				if m.Label == "single-active" && a.active && state[r.name].active {
					t.Fatalf("VERIF-REPRODUCED: revision %q applied Active while %q is still Active", a.name, r.name)
				}
				if m.Label == "numbered-last" && a.rev < state[r.name].rev {
					t.Fatalf("VERIF-REPRODUCED: current revision %q applied with number %d below %q (%d)", a.name, a.rev, r.name, state[r.name].rev)
				}
			}
		}
	case "controllable":
		for _, a := range applies {
			if !a.guards {
				t.Fatalf("VERIF-REPRODUCED: revision %q applied without an option refusing objects controlled by another owner", a.name)
			}
		}
	}
}
