package roles

// verif:search
// Replay concretiser for obligations of (roles.OrgDiffer).Differs (C18): every pair of package
// references over two registries (one of them the default, written out or left implicit), two
// organisations (one a prefix of the other), and tags/digests. Two references are in the same
// family scope iff registry and organisation (first path segment) are equal.

import (
	"fmt"
	"testing"
)

func TestVerifReplay(t *testing.T) {
	type ref struct{ s, registry, org string }
	var refs []ref
	for _, reg := range []struct{ text, canon string }{{"", "xpkg.upbound.io"}, {"xpkg.upbound.io/", "xpkg.upbound.io"}, {"registry.example.org/", "registry.example.org"}} {
		for _, org := range []string{"acme", "acme-corp", "other"} {
			for _, rest := range []string{"/provider-a:v1.0.0", "/provider-b@sha256:0123456789abcdef0123456789abcdef0123456789abcdef0123456789abcdef", "/sub/provider-c:v2"} {
				refs = append(refs, ref{reg.text + org + rest, reg.canon, org})
			}
		}
	}
	d := OrgDiffer{DefaultRegistry: "xpkg.upbound.io"}
	n := 0
	for _, a := range refs {
		for _, b := range refs {
			n++
			want := a.registry != b.registry || a.org != b.org
			if got := d.Differs(a.s, b.s); got != want {
				t.Fatalf("VERIF-REPRODUCED: Differs(%q, %q) = %v, but registries are %q/%q and organisations %q/%q", a.s, b.s, got, a.registry, b.registry, a.org, b.org)
			}
		}
	}
	for _, bad := range []string{"", "UPPER/case:v1", "a b"} {
		if !d.Differs(bad, refs[0].s) || !d.Differs(refs[0].s, bad) {
			t.Fatalf("VERIF-REPRODUCED: an unparsable reference %q is treated as the same organisation as %q", bad, refs[0].s)
		}
	}
	t.Log(fmt.Sprintf("searched %d reference pairs: contract holds on all of them", n))
}
