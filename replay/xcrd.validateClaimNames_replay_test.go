package xcrd

// verif:search
// Replay concretiser for obligations of xcrd.validateClaimNames (C11): claim names that equal
// the composite's in any subset of the four name fields (kind, plural, singular, listKind), with
// singular and listKind also left empty; the XRD is accepted iff it offers a claim and none of
// its claim names collides with a (non-empty) composite name.

import (
	"testing"

	extv1 "k8s.io/apiextensions-apiserver/pkg/apis/apiextensions/v1"

	v1 "github.com/crossplane/crossplane/apis/apiextensions/v1"
)

func TestVerifReplay(t *testing.T) {
	xr := extv1.CustomResourceDefinitionNames{Kind: "XThing", Plural: "xthings", Singular: "xthing", ListKind: "XThingList"}
	n := 0
	for m := 0; m < 16; m++ {
		for _, emptySingular := range []bool{false, true} {
			for _, emptyListKind := range []bool{false, true} {
				n++
				cn := extv1.CustomResourceDefinitionNames{Kind: "Thing", Plural: "things", Singular: "thing", ListKind: "ThingList"}
				collides := false
				if m&1 != 0 {
					cn.Kind, collides = xr.Kind, true
				}
				if m&2 != 0 {
					cn.Plural, collides = xr.Plural, true
				}
				if m&4 != 0 {
					cn.Singular = xr.Singular
				}
				if m&8 != 0 {
					cn.ListKind = xr.ListKind
				}
				if emptySingular {
					cn.Singular = ""
				}
				if emptyListKind {
					cn.ListKind = ""
				}
				collides = collides || (cn.Singular != "" && cn.Singular == xr.Singular) || (cn.ListKind != "" && cn.ListKind == xr.ListKind)
				d := &v1.CompositeResourceDefinition{Spec: v1.CompositeResourceDefinitionSpec{Names: xr, ClaimNames: &cn}}
				err := validateClaimNames(d)
				if (err != nil) != collides {
					t.Fatalf("VERIF-REPRODUCED: composite names %+v, claim names %+v: validateClaimNames = %v, but the names %s", xr, cn, err, map[bool]string{true: "collide", false: "do not collide"}[collides])
				}
			}
		}
	}
	if validateClaimNames(&v1.CompositeResourceDefinition{Spec: v1.CompositeResourceDefinitionSpec{Names: xr}}) == nil {
		t.Fatalf("VERIF-REPRODUCED: an XRD that offers no claim passes the claim-name check")
	}
	t.Logf("searched %d claim name sets: contract holds on all of them", n)
}
