package composite

// verif:search
// Replay concretiser for obligations of (*FetchingFunctionRunner).RunFunction (C03, C04): the
// wrapped function is scripted by a sequence of requirement sets over {none, A, B} (the last
// entry repeats for ever), optionally with a fatal result at one round. Success is reported
// only when the last response's requirements equal those of the response before it (or the
// response carries a fatal result); otherwise, after at most MaxRequirementsIterations+1
// rounds, an error. Each further round is supplied exactly the resources the latest
// requirements name, and the function is never called again after a response with a fatal result.

import (
	"context"
	"fmt"
	"reflect"
	"sort"
	"testing"

	fnv1 "github.com/crossplane/crossplane/apis/apiextensions/fn/proto/v1"
)

func TestVerifReplay(t *testing.T) {
	sets := map[string]*fnv1.Requirements{
		"none": nil,
		"A":    {ExtraResources: map[string]*fnv1.ResourceSelector{"a": {ApiVersion: "v1", Kind: "A", Match: &fnv1.ResourceSelector_MatchName{MatchName: "a"}}}},
		"B":    {ExtraResources: map[string]*fnv1.ResourceSelector{"b": {ApiVersion: "v1", Kind: "B", Match: &fnv1.ResourceSelector_MatchName{MatchName: "b"}}}},
	}
	var scripts [][]string
	var gen func(cur []string, n int)
	gen = func(cur []string, n int) {
		if len(cur) > 0 {
			scripts = append(scripts, append([]string(nil), cur...))
		}
		if n == 0 {
			return
		}
		for _, s := range []string{"none", "A", "B"} {
			gen(append(cur, s), n-1)
		}
	}
	gen(nil, 4)
	// plus the oscillation that never settles
	scripts = append(scripts, []string{"A", "B", "A", "B", "A", "B", "A", "B", "A", "B"})
	n := 0
	for _, sc := range scripts {
		for fatalAt := -1; fatalAt < len(sc) && fatalAt < 3; fatalAt++ {
			n++
			calls := 0
			var seen [][]string // names of the extra resources supplied at each call
			var seenDesired [][]string
			wrapped := FunctionRunnerFn(func(_ context.Context, _ string, req *fnv1.RunFunctionRequest) (*fnv1.RunFunctionResponse, error) {
				var got []string
				for k := range req.GetExtraResources() {
					got = append(got, k)
				}
				sort.Strings(got)
				seen = append(seen, got)
				i := calls
				if i >= len(sc) {
					i = len(sc) - 1
				}
				// what this round was handed as desired state: the caller's (one resource, "given")
				var des []string
				for k := range req.GetDesired().GetResources() {
					des = append(des, k)
				}
				sort.Strings(des)
				seenDesired = append(seenDesired, des)
				// the function returns a desired state of its own making
				rsp := &fnv1.RunFunctionResponse{Requirements: sets[sc[i]], Desired: &fnv1.State{Resources: map[string]*fnv1.Resource{"given": {}, fmt.Sprintf("added-in-round-%d", calls): {}}}}
				if calls == fatalAt {
					rsp.Results = []*fnv1.Result{{Severity: fnv1.Severity_SEVERITY_FATAL, Message: "fatal"}}
				}
				calls++
				return rsp, nil
			})
			fetcher := ExtraResourcesFetcherFn(func(_ context.Context, _ *fnv1.ResourceSelector) (*fnv1.Resources, error) {
				return &fnv1.Resources{}, nil
			})
			rsp, err := NewFetchingFunctionRunner(wrapped, fetcher).RunFunction(context.Background(), "fn", &fnv1.RunFunctionRequest{Desired: &fnv1.State{Resources: map[string]*fnv1.Resource{"given": {}}}})
			at := func(i int) string {
				if i >= len(sc) {
					i = len(sc) - 1
				}
				return sc[i]
			}
			desc := fmt.Sprintf("requirements per round=%v (last repeats) fatal result at round %d: %d calls", sc, fatalAt, calls)
			if calls > int(MaxRequirementsIterations)+1 {
				t.Fatalf("VERIF-REPRODUCED: %s, more than MaxRequirementsIterations+1", desc)
			}
			if fatalAt >= 0 && calls > fatalAt+1 {
				t.Fatalf("VERIF-REPRODUCED: %s: the function was called again after its response carried a fatal result (that result is lost)", desc)
			}
			if err == nil {
				last := calls - 1
				prev := "none"
				if last > 0 {
					prev = at(last - 1)
				}
				settled := reflect.DeepEqual(sets[at(last)], sets[prev])
				if !settled && last != fatalAt {
					t.Fatalf("VERIF-REPRODUCED: %s: success although the last response asks for %q and the one before it asked for %q - the requirements did not settle", desc, at(last), prev)
				}
				if rsp == nil {
					t.Fatalf("VERIF-REPRODUCED: %s: success without a response", desc)
				}
			}
			for i, d := range seenDesired {
				if fmt.Sprint(d) != "[given]" {
					t.Fatalf("VERIF-REPRODUCED: %s: round %d was handed the desired state %v, the caller supplied [given] (the step's own output of an earlier round must not come back as its input)", desc, i, d)
				}
			}
			for i := 1; i < len(seen); i++ {
				var want []string
				for k := range sets[at(i-1)].GetExtraResources() {
					want = append(want, k)
				}
				sort.Strings(want)
				if fmt.Sprint(seen[i]) != fmt.Sprint(want) {
					t.Fatalf("VERIF-REPRODUCED: %s: round %d was supplied the extra resources %v, the latest requirements name %v", desc, i, seen[i], want)
				}
			}
		}
	}
	t.Logf("searched %d scripted functions: contract holds on all of them", n)
}
