package v1

// verif:search
// Replay concretiser for obligations of v1.LatestRevision (C12). The solver's model is over
// abstract objects; a failing input is looked for among all lists of at most 3 revisions with
// numbers 1..3, each controlled by the composition, by someone else or by nobody (but labelled
// with the composition's name) and carrying the composition's current
// hash label or not, and checked against the contract's postconditions restated in Go.

import (
	"fmt"
	"testing"

	metav1 "k8s.io/apimachinery/pkg/apis/meta/v1"
	"k8s.io/apimachinery/pkg/types"
	"k8s.io/utils/ptr"
)

func TestVerifReplay(t *testing.T) {
	c := &Composition{ObjectMeta: metav1.ObjectMeta{Name: "comp", UID: types.UID("comp-uid")}}
	hash := c.Hash()
	if len(hash) > 63 {
		hash = hash[:63]
	}
	type shape struct {
		rev        int64
		controlled bool
		current    bool
		orphan     bool // no controller at all, but labelled with the composition's name
	}
	var shapes []shape
	for rev := int64(1); rev <= 3; rev++ {
		for _, ctl := range []bool{true, false} {
			for _, cur := range []bool{true, false} {
				shapes = append(shapes, shape{rev, ctl, cur, false})
			}
		}
	}
	for rev := int64(1); rev <= 3; rev++ {
		shapes = append(shapes, shape{rev, false, true, true})
	}
	var lists [][]shape
	var gen func(cur []shape, n int)
	gen = func(cur []shape, n int) {
		lists = append(lists, append([]shape(nil), cur...))
		if n == 0 {
			return
		}
		for _, s := range shapes {
			gen(append(cur, s), n-1)
		}
	}
	gen(nil, 3)
	for _, l := range lists {
		var revs []CompositionRevision
		desc := ""
		for i, s := range l {
			r := CompositionRevision{ObjectMeta: metav1.ObjectMeta{Name: fmt.Sprintf("comp-%d", i), Labels: map[string]string{}}}
			r.Spec.Revision = s.rev
			if s.controlled {
				r.OwnerReferences = []metav1.OwnerReference{{UID: c.UID, Name: c.Name, Controller: ptr.To(true)}}
			} else if s.orphan {
				r.Labels[LabelCompositionName] = c.Name
				r.OwnerReferences = []metav1.OwnerReference{{UID: "a-mere-owner", Name: "owner"}}
			} else {
				r.OwnerReferences = []metav1.OwnerReference{{UID: "someone-else", Name: "other", Controller: ptr.To(true)}}
			}
			if s.current {
				r.Labels[LabelCompositionHash] = hash
			} else {
				r.Labels[LabelCompositionHash] = "another-hash"
			}
			revs = append(revs, r)
			desc += fmt.Sprintf("[%s rev %d controlled=%v current-hash=%v uncontrolled-but-labelled=%v] ", r.Name, s.rev, s.controlled, s.current, s.orphan)
		}
		got := LatestRevision(c, revs)
		var want int64
		for _, s := range l {
			if s.controlled && s.rev > want {
				want = s.rev
			}
		}
		switch {
		case want == 0 && got != nil:
			t.Fatalf("VERIF-REPRODUCED: revisions=%s -> LatestRevision returned %s (rev %d) although the composition controls none", desc, got.Name, got.Spec.Revision)
		case want != 0 && got == nil:
			t.Fatalf("VERIF-REPRODUCED: revisions=%s -> LatestRevision returned nil, the highest controlled revision is %d", desc, want)
		case got != nil && got.Spec.Revision != want:
			t.Fatalf("VERIF-REPRODUCED: revisions=%s -> LatestRevision returned revision %d, the highest controlled revision is %d", desc, got.Spec.Revision, want)
		case got != nil && !metav1.IsControlledBy(got, c):
			t.Fatalf("VERIF-REPRODUCED: revisions=%s -> LatestRevision returned %s, which the composition does not control", desc, got.Name)
		}
	}
	t.Logf("searched %d revision lists: contract holds on all of them", len(lists))
}
