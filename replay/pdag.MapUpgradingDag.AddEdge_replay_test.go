package dag

// verif:search
// Replay concretiser for obligations of (*dag.MapUpgradingDag).AddEdge (C17): a graph holding a
// parent and possibly the dependency at some installed version; the edge must be reported
// (implied) iff the dependency is absent or its installed version does not meet the constraint.

import (
	"testing"

	"github.com/Masterminds/semver"
)

type verifNode struct {
	id, constraints string
	parents         []string
	neighbors       []Node
}

func (n *verifNode) Identifier() string              { return n.id }
func (n *verifNode) Neighbors() []Node               { return n.neighbors }
func (n *verifNode) GetConstraints() string          { return n.constraints }
func (n *verifNode) GetParentConstraints() []string  { return n.parents }
func (n *verifNode) AddParentConstraints(c []string) { n.parents = append(n.parents, c...) }
func (n *verifNode) AddNeighbors(ns ...Node) error {
	n.neighbors = append(n.neighbors, ns...)
	return nil
}

func TestVerifReplay(t *testing.T) {
	const da = "sha256:aaaaaaaaaaaaaaaaaaaaaaaaaaaaaaaaaaaaaaaaaaaaaaaaaaaaaaaaaaaaaaaa"
	const db = "sha256:bbbbbbbbbbbbbbbbbbbbbbbbbbbbbbbbbbbbbbbbbbbbbbbbbbbbbbbbbbbbbbbb"
	installed := []string{"<absent>", "v1.0.0", "v2.5.0", da, db, "latest"}
	wanted := []string{">=1.0.0", ">=2.0.0", "v1.0.0", da, db, "not a constraint", ""}
	n := 0
	for _, iv := range installed {
		for _, wc := range wanted {
			n++
			d := NewUpgradingMapDag().(*MapUpgradingDag)
			if err := d.AddNode(&verifNode{id: "parent", constraints: "v1.0.0"}); err != nil {
				t.Fatal(err)
			}
			want := true
			if iv != "<absent>" {
				if err := d.AddNode(&verifNode{id: "dep", constraints: iv}); err != nil {
					t.Fatal(err)
				}
				want = iv != wc
				if c, err := semver.NewConstraint(wc); err == nil && want {
					if v, err := semver.NewVersion(iv); err == nil {
						want = !c.Check(v)
					}
				}
			}
			got, err := d.AddEdge("parent", &verifNode{id: "dep", constraints: wc})
			if err != nil {
				t.Fatalf("AddEdge(installed %q, wanted %q): %v", iv, wc, err)
			}
			if got != want {
				t.Fatalf("VERIF-REPRODUCED: AddEdge to a dependency installed at %q under the constraint %q reports implied = %v, want %v", iv, wc, got, want)
			}
		}
	}
	t.Logf("searched %d (installed, constraint) pairs: contract holds on all of them", n)
}
