package usage

// verif:search
// Replay concretiser for obligations of the field-indexer closure registered by
// usage.SetupWebhookWithManager (C19): Usages of resources in the core group, a named group and
// a group with a version suffix, named or not. The key the indexer files a Usage under is the
// key the webhook looks up for the used object.

import (
	"context"
	"testing"

	"k8s.io/apimachinery/pkg/apis/meta/v1/unstructured"
	"k8s.io/apimachinery/pkg/runtime"
	"sigs.k8s.io/controller-runtime/pkg/client"
	"sigs.k8s.io/controller-runtime/pkg/webhook"

	"github.com/crossplane/crossplane-runtime/pkg/controller"
	"github.com/crossplane/crossplane-runtime/pkg/logging"
	"github.com/crossplane/crossplane-runtime/pkg/resource/fake"
	"github.com/crossplane/crossplane-runtime/pkg/test"

	"github.com/crossplane/crossplane/apis/apiextensions/v1beta1"
)

type verifIndexer struct{ fn client.IndexerFunc }

func (i *verifIndexer) IndexField(_ context.Context, _ client.Object, _ string, fn client.IndexerFunc) error {
	i.fn = fn
	return nil
}

type verifManager struct {
	fake.Manager
	idx *verifIndexer
}

func (m *verifManager) GetFieldIndexer() client.FieldIndexer { return m.idx }
func (m *verifManager) GetWebhookServer() webhook.Server     { return webhook.NewServer(webhook.Options{}) }

func TestVerifReplay(t *testing.T) {
	idx := &verifIndexer{}
	m := &verifManager{Manager: fake.Manager{Client: &test.MockClient{}, Scheme: runtime.NewScheme()}, idx: idx}
	if err := SetupWebhookWithManager(m, controller.Options{Logger: logging.NewNopLogger()}); err != nil {
		t.Fatal(err)
	}
	if idx.fn == nil {
		t.Fatalf("VERIF-REPRODUCED: no field indexer registered for Usages")
	}
	n := 0
	for _, av := range []string{"v1", "example.org/v1", "apps/v1", "nop.crossplane.io/v1alpha1"} {
		for _, kind := range []string{"Namespace", "Thing"} {
			for _, name := range []string{"prod", ""} {
				n++
				u := &v1beta1.Usage{}
				u.Spec.Of = v1beta1.Resource{APIVersion: av, Kind: kind}
				if name != "" {
					u.Spec.Of.ResourceRef = &v1beta1.ResourceRef{Name: name}
				}
				got := idx.fn(u)
				used := &unstructured.Unstructured{}
				used.SetAPIVersion(av)
				used.SetKind(kind)
				used.SetName(name)
				want := IndexValueForObject(used)
				switch {
				case name == "" && len(got) != 0:
					t.Fatalf("VERIF-REPRODUCED: a Usage that does not name its resource is indexed under %v", got)
				case name != "" && (len(got) != 1 || got[0] != want):
					t.Fatalf("VERIF-REPRODUCED: a ready Usage of %s %s %q is filed in the index under %v, the webhook looks a delete of that object up under %q: the delete is allowed", av, kind, name, got, want)
				}
			}
		}
	}
	t.Logf("searched %d Usages: contract holds on all of them", n)
}
