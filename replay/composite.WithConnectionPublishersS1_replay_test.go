package composite

// verif:search
// Replay concretiser for obligations of the composite.WithConnectionPublishers option (C09): a
// reconciler built with its defaults and then configured with 0, 1 or 2 publishers (once or
// twice) publishes through exactly the publishers configured last - the unfiltered default never
// publishes next to them.

import (
	"context"
	"testing"

	"k8s.io/apimachinery/pkg/runtime/schema"
	"sigs.k8s.io/controller-runtime/pkg/client"

	"github.com/crossplane/crossplane-runtime/pkg/reconciler/managed"
	"github.com/crossplane/crossplane-runtime/pkg/resource"
	"github.com/crossplane/crossplane-runtime/pkg/resource/fake"
	"github.com/crossplane/crossplane-runtime/pkg/test"
)

func TestVerifReplay(t *testing.T) {
	n := 0
	for _, k := range []int{0, 1, 2} {
		for _, twice := range []bool{false, true} {
			n++
			var called []int
			defaultWrites := 0
			count := func(client.Object) error { defaultWrites++; return nil }
			mc := &test.MockClient{
				MockGet:    test.NewMockGetFn(nil),
				MockPatch:  test.NewMockPatchFn(nil, count),
				MockCreate: test.NewMockCreateFn(nil, count),
				MockUpdate: test.NewMockUpdateFn(nil, count),
			}
			var ps []managed.ConnectionPublisher
			for i := 0; i < k; i++ {
				i := i
				ps = append(ps, managed.ConnectionPublisherFns{PublishConnectionFn: func(context.Context, resource.ConnectionSecretOwner, managed.ConnectionDetails) (bool, error) {
					called = append(called, i)
					return true, nil
				}})
			}
			opts := []ReconcilerOption{WithConnectionPublishers(ps...)}
			if twice {
				opts = append([]ReconcilerOption{WithConnectionPublishers(managed.ConnectionPublisherFns{PublishConnectionFn: func(context.Context, resource.ConnectionSecretOwner, managed.ConnectionDetails) (bool, error) {
					called = append(called, -1)
					return true, nil
				}})}, opts...)
			}
			r := NewReconciler(mc, mc, resource.CompositeKind(schema.GroupVersionKind{Group: "example.org", Version: "v1", Kind: "XThing"}), opts...)
			xr := &fake.Composite{}
			if _, err := r.composite.PublishConnection(context.Background(), xr, managed.ConnectionDetails{"k": []byte("v")}); err != nil {
				t.Fatal(err)
			}
			if len(called) != k || defaultWrites != 0 {
				t.Fatalf("VERIF-REPRODUCED: %d publishers configured (an earlier configuration before them: %v): publishers called %v, writes by the unfiltered default publisher %d - keys the XRD does not allow reach the XR's secret", k, twice, called, defaultWrites)
			}
			for i, ci := range called {
				if ci != i {
					t.Fatalf("VERIF-REPRODUCED: publishers called out of order or from an earlier configuration: %v", called)
				}
			}
		}
	}
	t.Logf("searched %d configurations: contract holds on all of them", n)
}
