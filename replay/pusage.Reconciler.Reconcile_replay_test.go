package usage

// verif:search
// Replay concretiser for obligations of (*usage.Reconciler).Reconcile (C19): the deletion of a
// Usage replayed against a small in-memory API that checks resourceVersion on Update, with a
// second Usage of the same resource turning up (and writing the in-use label) at every point of
// the first one's reconcile: never, before the usages are counted, or right after. Whatever the
// interleaving, once the first Usage is released the in-use label is gone iff no other Usage
// names the resource.

import (
	"context"
	"strconv"
	"testing"

	kerrors "k8s.io/apimachinery/pkg/api/errors"
	metav1 "k8s.io/apimachinery/pkg/apis/meta/v1"
	"k8s.io/apimachinery/pkg/runtime/schema"
	"sigs.k8s.io/controller-runtime/pkg/client"
	"sigs.k8s.io/controller-runtime/pkg/reconcile"

	"github.com/crossplane/crossplane-runtime/pkg/errors"
	xpresource "github.com/crossplane/crossplane-runtime/pkg/resource"
	"github.com/crossplane/crossplane-runtime/pkg/resource/fake"
	"github.com/crossplane/crossplane-runtime/pkg/resource/unstructured/composed"
	"github.com/crossplane/crossplane-runtime/pkg/test"

	"github.com/crossplane/crossplane/apis/apiextensions/v1beta1"
)

type verifResolver struct{}

func (verifResolver) resolveSelectors(_ context.Context, _ *v1beta1.Usage) error { return nil }

func TestVerifReplay(t *testing.T) {
	// when the second Usage appears: 0 never, 1 before the first Get of the used resource,
	// 2 right after the first List was served, 3 right after the first Get of the used resource
	for arrival := 0; arrival <= 3; arrival++ {
		now := metav1.Now()
		usedLabels := map[string]string{inUseLabelKey: "true"}
		usedRV := 1
		first := v1beta1.Usage{ObjectMeta: metav1.ObjectMeta{Name: "first", DeletionTimestamp: &now, Finalizers: []string{finalizer}}}
		first.Spec.Of = v1beta1.Resource{APIVersion: "v1", Kind: "Cool", ResourceRef: &v1beta1.ResourceRef{Name: "used"}}
		second := v1beta1.Usage{ObjectMeta: metav1.ObjectMeta{Name: "second"}}
		second.Spec.Of = first.Spec.Of
		usages := []v1beta1.Usage{first}
		arrived, released := false, false
		arrive := func(at int) {
			if arrival == at && !arrived {
				arrived = true
				usages = append(usages, second)
				usedLabels[inUseLabelKey] = "true" // the second Usage's reconcile writes the label before it reports ready
				usedRV++
			}
		}
		c := &test.MockClient{
			MockGet: test.NewMockGetFn(nil, func(obj client.Object) error {
				switch o := obj.(type) {
				case *v1beta1.Usage:
					first.DeepCopyInto(o)
					return nil
				case *composed.Unstructured:
					arrive(1)
					l := map[string]string{}
					for k, v := range usedLabels {
						l[k] = v
					}
					o.SetLabels(l)
					o.SetResourceVersion(strconv.Itoa(usedRV))
					arrive(3)
					return nil
				}
				return errors.New("unexpected object type")
			}),
			MockList: test.NewMockListFn(nil, func(obj client.ObjectList) error {
				obj.(*v1beta1.UsageList).Items = append([]v1beta1.Usage{}, usages...)
				arrive(2)
				return nil
			}),
			MockUpdate: test.NewMockUpdateFn(nil, func(obj client.Object) error {
				o, ok := obj.(*composed.Unstructured)
				if !ok {
					return errors.New("unexpected object type")
				}
				if o.GetResourceVersion() != strconv.Itoa(usedRV) {
					return kerrors.NewConflict(schema.GroupResource{Resource: "cools"}, o.GetName(), errors.New("object has been modified"))
				}
				usedLabels = map[string]string{}
				for k, v := range o.GetLabels() {
					usedLabels[k] = v
				}
				usedRV++
				return nil
			}),
		}
		r := NewReconciler(&fake.Manager{},
			WithClientApplicator(xpresource.ClientApplicator{Client: c}),
			WithSelectorResolver(verifResolver{}),
			WithFinalizer(xpresource.FinalizerFns{RemoveFinalizerFn: func(_ context.Context, _ xpresource.Object) error {
				released = true
				return nil
			}}),
		)
		for i := 0; i < 6 && !released; i++ {
			if _, err := r.Reconcile(context.Background(), reconcile.Request{}); err != nil {
				t.Fatalf("arrival %d, reconcile %d: %v", arrival, i, err)
			}
		}
		if !released {
			t.Fatalf("arrival %d: the deleted Usage was never released", arrival)
		}
		labelled := usedLabels[inUseLabelKey] == "true"
		if arrived && !labelled {
			t.Fatalf("VERIF-REPRODUCED: a second Usage of the resource appeared (point %d of the first Usage's reconcile) and wrote the in-use label, yet after the first Usage was released the label is gone: the resource can be deleted while a ready Usage names it", arrival)
		}
		if !arrived && labelled {
			t.Fatalf("VERIF-REPRODUCED: the last Usage of the resource was released but the in-use label is still there")
		}
	}
	t.Log("searched 4 interleavings: contract holds on all of them")
}
