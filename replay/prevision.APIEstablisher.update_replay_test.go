package revision

// verif:search
// Replay concretiser for obligations of (*APIEstablisher).update (C16, C02): existing objects
// whose owner references are empty, name this revision as controller or plain owner, name
// another revision of the same package as controller, or name a foreign controller - updated
// with control true/false. A controlling revision writes the desired object under its own
// controller reference, keeps every other owner and refuses an object someone else controls
// (nobody's controller flag is ever cleared); a non-controlling revision writes the existing
// object with itself added as a plain owner and never becomes controller.

import (
	"context"
	"fmt"
	"testing"

	extv1 "k8s.io/apiextensions-apiserver/pkg/apis/apiextensions/v1"
	metav1 "k8s.io/apimachinery/pkg/apis/meta/v1"
	"k8s.io/apimachinery/pkg/types"
	"k8s.io/utils/ptr"
	"sigs.k8s.io/controller-runtime/pkg/client"

	"github.com/crossplane/crossplane-runtime/pkg/test"

	v1 "github.com/crossplane/crossplane/apis/pkg/v1"
)

func TestVerifReplay(t *testing.T) {
	parent := &v1.ProviderRevision{ObjectMeta: metav1.ObjectMeta{Name: "pkg-bbb", UID: types.UID("rev-2-uid"), Labels: map[string]string{v1.LabelParentPackage: "pkg"},
		OwnerReferences: []metav1.OwnerReference{{Name: "pkg", UID: "pkg-uid", Kind: "Provider", Controller: ptr.To(true)}}}}
	parent.SetGroupVersionKind(v1.ProviderRevisionGroupVersionKind)
	owners := map[string][]metav1.OwnerReference{
		"no owner":                               nil,
		"this revision controls":                 {{Name: "pkg-bbb", UID: "rev-2-uid", Kind: "ProviderRevision", Controller: ptr.To(true)}},
		"this revision is a plain owner":         {{Name: "pkg-bbb", UID: "rev-2-uid", Kind: "ProviderRevision", Controller: ptr.To(false)}},
		"older revision of the package controls": {{Name: "pkg-aaa", UID: "rev-1-uid", Kind: "ProviderRevision", Controller: ptr.To(true)}, {Name: "pkg", UID: "pkg-uid", Kind: "Provider", Controller: ptr.To(false)}},
		"a foreign controller":                   {{Name: "someone", UID: "foreign-uid", Kind: "Deployment", Controller: ptr.To(true)}},
		"a foreign plain owner":                  {{Name: "someone", UID: "foreign-uid", Kind: "Deployment"}},
	}
	n := 0
	for oname, refs := range owners {
		for _, control := range []bool{true, false} {
			n++
			current := &extv1.CustomResourceDefinition{ObjectMeta: metav1.ObjectMeta{Name: "crd", ResourceVersion: "42", OwnerReferences: append([]metav1.OwnerReference(nil), refs...)}}
			desired := &extv1.CustomResourceDefinition{ObjectMeta: metav1.ObjectMeta{Name: "crd"}}
			desired.Spec.Group = "desired.example.org"
			var written *extv1.CustomResourceDefinition
			c := &test.MockClient{MockUpdate: func(_ context.Context, o client.Object, _ ...client.UpdateOption) error {
				written = o.(*extv1.CustomResourceDefinition).DeepCopy()
				return nil
			}}
			err := (&APIEstablisher{client: c}).update(context.Background(), current, desired, parent, control)
			desc := fmt.Sprintf("existing object with %s, control=%v: err=%v", oname, control, err)
			foreignCtrl := oname == "a foreign controller" || oname == "older revision of the package controls"
			if written == nil {
				if control && foreignCtrl {
					continue // refused: somebody else controls it
				}
				t.Fatalf("VERIF-REPRODUCED: %s: nothing was written", desc)
			}
			if control && foreignCtrl {
				t.Fatalf("VERIF-REPRODUCED: %s: the object is controlled by someone else but was written with owners %v", desc, written.OwnerReferences)
			}
			var ctrl []string
			for _, r := range written.OwnerReferences {
				if r.Controller != nil && *r.Controller {
					ctrl = append(ctrl, string(r.UID))
				}
			}
			for _, r := range refs {
				found := false
				for _, w := range written.OwnerReferences {
					if w.UID == r.UID {
						found = true
						if r.Controller != nil && *r.Controller && (w.Controller == nil || !*w.Controller) && (r.UID != "rev-2-uid") {
							t.Fatalf("VERIF-REPRODUCED: %s: the controller flag of owner %s was cleared", desc, r.UID)
						}
					}
				}
				if !found {
					t.Fatalf("VERIF-REPRODUCED: %s: owner %s was dropped (written owners %v)", desc, r.UID, written.OwnerReferences)
				}
			}
			if control {
				if len(ctrl) != 1 || ctrl[0] != "rev-2-uid" || written.Spec.Group != "desired.example.org" || written.ResourceVersion != "42" {
					t.Fatalf("VERIF-REPRODUCED: %s: a controlling revision must write the desired object (group %q, resourceVersion %q) controlled by itself, controllers are %v", desc, written.Spec.Group, written.ResourceVersion, ctrl)
				}
			} else {
				hasSelf := false
				for _, w := range written.OwnerReferences {
					if w.UID == "rev-2-uid" {
						hasSelf = true
					}
				}
				if written.Spec.Group != "" || !hasSelf {
					t.Fatalf("VERIF-REPRODUCED: %s: a non-controlling revision must write the existing object with itself added as owner (group %q, owners %v)", desc, written.Spec.Group, written.OwnerReferences)
				}
				if oname != "this revision controls" {
					for _, cu := range ctrl {
						if cu == "rev-2-uid" {
							t.Fatalf("VERIF-REPRODUCED: %s: a non-controlling revision became controller", desc)
						}
					}
				}
			}
			found := false
			for _, w := range written.OwnerReferences {
				if w.UID == "pkg-uid" && (w.Controller == nil || !*w.Controller) {
					found = true
				}
			}
			if !found {
				t.Fatalf("VERIF-REPRODUCED: %s: the package is not kept as a plain owner (owners %v)", desc, written.OwnerReferences)
			}
		}
	}
	t.Logf("searched %d (owner references, control) combinations: contract holds on all of them", n)
}
