package roles

// verif:search
// Replay concretiser for obligations of (roles.Rule).path (C18): the key's shape for URL and
// resource rules, and what the shape is for - an allow tree built from one allowed URL rule must
// answer a request for another URL (deeper, shorter, or a verb that looks like a URL segment)
// exactly as literal URL matching with a verb wildcard does.

import (
	"testing"
)

func TestVerifReplay(t *testing.T) {
	urls := []string{"/metrics", "/metrics/cadvisor", "/metrics/get", "/apis", "/apis/get/x", "/", "/*"}
	verbs := []string{"get", "*", "post", "cadvisor"}
	n := 0
	for _, u := range urls {
		for _, v := range verbs {
			p := Rule{NonResourceURL: u, Verb: v}.path()
			if len(p) != 3 || p[0] != "url" || p[1] != u || p[2] != v {
				t.Fatalf("VERIF-REPRODUCED: Rule{NonResourceURL: %q, Verb: %q}.path() = %q, want [url %s %s]", u, v, []string(p), u, v)
			}
		}
	}
	p := Rule{APIGroup: "g", Resource: "r", ResourceName: "n", Verb: "v"}.path()
	if len(p) != 5 || p[0] != "resource" || p[1] != "g" || p[2] != "r" || p[3] != "n" || p[4] != "v" {
		t.Fatalf("VERIF-REPRODUCED: resource rule path() = %q", []string(p))
	}
	for _, au := range urls {
		for _, av := range verbs {
			tree := newNode()
			tree.Allow(Rule{NonResourceURL: au, Verb: av}.path())
			for _, ru := range urls {
				for _, rv := range verbs {
					n++
					want := (au == ru || au == "*") && (av == rv || av == "*")
					if got := tree.Allowed(Rule{NonResourceURL: ru, Verb: rv}.path()); got != want {
						t.Fatalf("VERIF-REPRODUCED: allow-list rule {url %q, verb %q}: request {url %q, verb %q} allowed = %v, want %v", au, av, ru, rv, got, want)
					}
				}
			}
		}
	}
	t.Logf("searched %d (allow rule, request) URL pairs: contract holds on all of them", n)
}
