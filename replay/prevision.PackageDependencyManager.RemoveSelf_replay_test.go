package revision

// verif:search
// Replay concretiser for obligations of (*PackageDependencyManager).RemoveSelf (C08): locks of
// at most 3 packages with the revision absent or at any position, and a conflict or server
// error at the Get or the Update. When it reports success the stored lock no longer lists the
// revision and still lists every other package in order; absent means no write.

import (
	"context"
	"errors"
	"fmt"
	"testing"

	kerrors "k8s.io/apimachinery/pkg/api/errors"
	"k8s.io/apimachinery/pkg/runtime/schema"
	"sigs.k8s.io/controller-runtime/pkg/client"

	"github.com/crossplane/crossplane-runtime/pkg/test"

	v1 "github.com/crossplane/crossplane/apis/pkg/v1"
	"github.com/crossplane/crossplane/apis/pkg/v1beta1"
)

func TestVerifReplay(t *testing.T) {
	pool := []string{"self", "other-1", "other-2"}
	var lists [][]string
	var gen func(cur []string, used int)
	gen = func(cur []string, used int) {
		lists = append(lists, append([]string(nil), cur...))
		for i, p := range pool {
			if used&(1<<i) == 0 {
				gen(append(cur, p), used|1<<i)
			}
		}
	}
	gen(nil, 0)
	faults := map[string]error{"none": nil, "conflict": kerrors.NewConflict(schema.GroupResource{Resource: "locks"}, "lock", errors.New("conflict")), "server error": errors.New("boom")}
	n := 0
	for _, l := range lists {
		for fname, ferr := range faults {
			for _, at := range []string{"get", "update"} {
				if ferr == nil && at == "update" {
					continue
				}
				n++
				stored := append([]string(nil), l...)
				updates := 0
				faulted := false
				c := &test.MockClient{
					MockGet: func(_ context.Context, _ client.ObjectKey, o client.Object) error {
						if ferr != nil && at == "get" && !faulted {
							faulted = true
							return ferr
						}
						lk := o.(*v1beta1.Lock)
						lk.Packages = nil
						for _, p := range stored {
							lk.Packages = append(lk.Packages, v1beta1.LockPackage{Name: p})
						}
						return nil
					},
					MockUpdate: func(_ context.Context, o client.Object, _ ...client.UpdateOption) error {
						updates++
						if ferr != nil && at == "update" && !faulted {
							faulted = true
							return ferr
						}
						stored = nil
						for _, p := range o.(*v1beta1.Lock).Packages {
							stored = append(stored, p.Name)
						}
						return nil
					},
				}
				pr := &v1.ProviderRevision{}
				pr.SetName("self")
				err := (&PackageDependencyManager{client: c}).RemoveSelf(context.Background(), pr)
				var want []string
				present := false
				for _, p := range l {
					if p == "self" {
						present = true
					} else {
						want = append(want, p)
					}
				}
				desc := fmt.Sprintf("lock=%v fault=%s at %s: %d update(s), stored lock now %v, err=%v", l, fname, at, updates, stored, err)
				switch {
				case err == nil && fmt.Sprint(stored) != fmt.Sprint(want):
					t.Fatalf("VERIF-REPRODUCED: %s: reports success but the lock should be %v (the revision's finalizer is removed next)", desc, want)
				case !present && updates > 0:
					t.Fatalf("VERIF-REPRODUCED: %s: the revision is not in the lock but the lock was written", desc)
				}
			}
		}
	}
	t.Logf("searched %d (lock, fault) combinations: contract holds on all of them", n)
}
