package composite

// verif:search
// Replay concretiser for obligations of composite.ApplyCombineFromVariablesPatch (C10): combine
// patches over 1..2 variables whose source paths exist or not, under every fromFieldPath policy
// (unset, Optional, Required): a missing variable is a no-op when optional and an error when
// required, and nothing is written to the destination in either case; with every variable
// present the combined string is written.

import (
	"fmt"
	"testing"

	"k8s.io/apimachinery/pkg/apis/meta/v1/unstructured"

	"github.com/crossplane/crossplane-runtime/pkg/fieldpath"

	v1 "github.com/crossplane/crossplane/apis/apiextensions/v1"
)

func TestVerifReplay(t *testing.T) {
	opt, req := v1.FromFieldPathPolicyOptional, v1.FromFieldPathPolicyRequired
	policies := map[string]*v1.PatchPolicy{"unset": nil, "empty": {}, "Optional": {FromFieldPath: &opt}, "Required": {FromFieldPath: &req}}
	paths := [][]string{{"spec.a"}, {"spec.missing"}, {"spec.a", "spec.b"}, {"spec.a", "spec.missing"}, {"spec.missing", "spec.b"}}
	n := 0
	for pname, pol := range policies {
		for _, ps := range paths {
			n++
			from := &unstructured.Unstructured{Object: map[string]any{"apiVersion": "example.org/v1", "kind": "XThing", "spec": map[string]any{"a": "A", "b": "B"}}}
			to := &unstructured.Unstructured{Object: map[string]any{"apiVersion": "example.org/v1", "kind": "Thing", "spec": map[string]any{"keep": "K"}}}
			var vars []v1.CombineVariable
			missing := false
			format := ""
			for _, p := range ps {
				vars = append(vars, v1.CombineVariable{FromFieldPath: p})
				missing = missing || p == "spec.missing"
				format += "%s"
			}
			toPath := "spec.out"
			p := v1.Patch{Type: v1.PatchTypeCombineFromComposite, ToFieldPath: &toPath, Policy: pol,
				Combine: &v1.Combine{Strategy: v1.CombineStrategyString, Variables: vars, String: &v1.StringCombine{Format: format}}}
			err := ApplyCombineFromVariablesPatch(p, from, to)
			out, gerr := fieldpath.Pave(to.Object).GetString("spec.out")
			wrote := gerr == nil
			desc := fmt.Sprintf("policy=%s variables=%v", pname, ps)
			switch {
			case missing && pname == "Required" && err == nil:
				t.Fatalf("VERIF-REPRODUCED: %s: a required variable is missing but the patch reports success (destination written: %v)", desc, wrote)
			case missing && pname != "Required" && err != nil:
				t.Fatalf("VERIF-REPRODUCED: %s: an optional variable is missing and the patch failed: %v", desc, err)
			case missing && wrote:
				t.Fatalf("VERIF-REPRODUCED: %s: a variable is missing but %q was written to the destination", desc, out)
			case !missing && (err != nil || !wrote):
				t.Fatalf("VERIF-REPRODUCED: %s: every variable is present but nothing was combined (err %v)", desc, err)
			}
		}
	}
	t.Logf("searched %d combine patches: contract holds on all of them", n)
}
