package composite

// verif:search
// Replay concretiser for obligations of composite.matchesRegexp (C10): well-formed and malformed
// expressions, string / non-string / null inputs, each evaluated three times in one process. Every
// evaluation of the same pattern and input gives the same answer, and none panics.

import (
	"fmt"
	"testing"

	"k8s.io/utils/ptr"

	v1 "github.com/crossplane/crossplane/apis/apiextensions/v1"
)

func TestVerifReplay(t *testing.T) {
	n := 0
	for _, expr := range []string{"^us-.*$", "a+", "?=", "(", "[a-"} {
		for _, in := range []any{"us-east-1", "eu", 5, nil} {
			n++
			var first string
			for round := 1; round <= 3; round++ {
				got := func() (out string) {
					defer func() {
						if r := recover(); r != nil {
							out = fmt.Sprintf("PANIC: %v", r)
						}
					}()
					ok, err := matchesRegexp(v1.MatchTransformPattern{Type: v1.MatchTransformPatternTypeRegexp, Regexp: ptr.To(expr)}, in)
					return fmt.Sprintf("%v / error=%v", ok, err != nil)
				}()
				if round == 1 {
					first = got
				}
				if got != first || len(got) > 5 && got[:5] == "PANIC" {
					t.Fatalf("VERIF-REPRODUCED: regexp %q on input %#v: evaluation 1 gave %q, evaluation %d gave %q", expr, in, first, round, got)
				}
			}
		}
	}
	t.Logf("searched %d (expression, input) pairs, three evaluations each: contract holds on all of them", n)
}
