package xfn

// verif:search
// Replay concretiser for obligations of (*PackagedFunctionRunner).getClientConn (C04): revision
// lists of at most 2 revisions (active/inactive, endpoint A/B/empty) x what is cached for the
// function (nothing, a connection to A, a connection to B). A connection is handed back only
// for the non-empty endpoint of an active revision, and then it targets that endpoint.

import (
	"context"
	"fmt"
	"testing"

	"google.golang.org/grpc"
	"google.golang.org/grpc/credentials/insecure"
	metav1 "k8s.io/apimachinery/pkg/apis/meta/v1"
	"sigs.k8s.io/controller-runtime/pkg/client"

	"github.com/crossplane/crossplane-runtime/pkg/test"

	pkgv1 "github.com/crossplane/crossplane/apis/pkg/v1"
)

func TestVerifReplay(t *testing.T) {
	type rev struct {
		active   bool
		endpoint string
	}
	var revs []rev
	for _, a := range []bool{true, false} {
		for _, e := range []string{"dns:///a:9443", "dns:///b:9443", ""} {
			revs = append(revs, rev{a, e})
		}
	}
	lists := [][]rev{nil}
	for _, r1 := range revs {
		lists = append(lists, []rev{r1})
		for _, r2 := range revs {
			lists = append(lists, []rev{r1, r2})
		}
	}
	n := 0
	for _, l := range lists {
		for _, cached := range []string{"", "dns:///a:9443", "dns:///b:9443"} {
			n++
			c := &test.MockClient{MockList: func(_ context.Context, ol client.ObjectList, _ ...client.ListOption) error {
				fl := ol.(*pkgv1.FunctionRevisionList)
				for i, r := range l {
					fr := pkgv1.FunctionRevision{ObjectMeta: metav1.ObjectMeta{Name: fmt.Sprintf("fn-%d", i)}}
					fr.Spec.DesiredState = pkgv1.PackageRevisionInactive
					if r.active {
						fr.Spec.DesiredState = pkgv1.PackageRevisionActive
					}
					fr.Status.Endpoint = r.endpoint
					fl.Items = append(fl.Items, fr)
				}
				return nil
			}}
			r := NewPackagedFunctionRunner(c)
			if cached != "" {
				cc, err := grpc.NewClient(cached, grpc.WithTransportCredentials(insecure.NewCredentials()))
				if err != nil {
					t.Fatal(err)
				}
				r.conns["fn"] = cc
			}
			conn, err := r.getClientConn(context.Background(), "fn")
			okEndpoints := map[string]bool{}
			anyActive := false
			for _, x := range l {
				if x.active {
					anyActive = true
					if x.endpoint != "" {
						okEndpoints[x.endpoint] = true
					}
				}
			}
			desc := fmt.Sprintf("revisions=%+v cached-connection-target=%q", l, cached)
			switch {
			case err == nil && conn == nil:
				t.Fatalf("VERIF-REPRODUCED: %s: no error and no connection", desc)
			case err == nil && !okEndpoints[conn.Target()]:
				t.Fatalf("VERIF-REPRODUCED: %s: the step would be sent to %q, which is not the endpoint of an active revision (active endpoints: %v)", desc, conn.Target(), okEndpoints)
			case err != nil && !anyActive:
				// correct: nothing to send the step to
			}
			if err == nil && r.conns["fn"] != conn {
				t.Fatalf("VERIF-REPRODUCED: %s: the connection handed back is not the one kept for the function", desc)
			}
		}
	}
	t.Logf("searched %d (revision list, cached connection) combinations: contract holds on all of them", n)
}
