#!/usr/bin/env python3
"""usage: tools/harmcheck.py <patch.diff> [more patches...]
Applies a behaviour-preserving patch to /repo, runs the quick check of every property that has
contracts in the directories the patch touches, reverts, and reports any alarm (a false alarm)."""
import subprocess, sys, re, os
R = os.environ.get('VERIF_REPO', '/repo'); V = os.environ.get('VERIF_DIR', '/verif')
def sh(c, **kw): return subprocess.run(c, shell=True, text=True, capture_output=True, **kw)
if sh(f"git -C {R} status --porcelain --untracked-files=no").stdout.strip():
    print(f"{R} has uncommitted changes"); sys.exit(2)
bad = 0
for patch in sys.argv[1:]:
    files = re.findall(r'^\+\+\+ b/(\S+)', open(patch).read(), re.M)
    props = set()
    for f in files:
        c = os.path.join(R, os.path.dirname(f), 'zz_contracts_verif.go')
        if os.path.exists(c):
            for l in open(c):
                m = re.match(r'//@ props (.*)', l.strip())
                if m: props.update(m.group(1).replace(',', ' ').split())
            props.update(re.findall(r'\[(C\d\d)', open(c).read()))
    r = sh(f"git -C {R} apply {patch}")
    if r.returncode != 0:
        print(f"{patch} | DOES NOT APPLY | {r.stderr.strip()[:100]}"); continue
    try:
        for p in sorted(props):
            o = sh(f"VERIF_EVIDENCE_DIR=/tmp/verif-harm-evidence {V}/check {p} quick", cwd=V)
            alarms = [l for l in o.stdout.splitlines() if l.startswith('failed obligation') or l.startswith('failed bounded')]
            status = 'silent' if o.returncode == 0 else f'ALARM rc={o.returncode}'
            if o.returncode != 0: bad += 1
            print(f"{patch} | {p} | {status} | {'; '.join(a[:160] for a in alarms[:3])}")
    finally:
        sh(f"git -C {R} checkout -q -- .")
print(f"{bad} alarms")
sys.exit(1 if bad else 0)
