#!/bin/bash
# Runs the quick (or given tier) check of every claimed property against /repo as it stands and
# rewrites evidence/<id>.json. Use before committing so the committed evidence is from a clean run.
cd /verif
tier=${1:-quick}
rc=0
for p in $(python3 -c "import json;print(' '.join(c['property_id'] for c in json.load(open('MANIFEST.json'))['checks']))"); do
  ./check $p $tier | tail -1 | cut -c1-200
  [ ${PIPESTATUS[0]} -ne 0 ] && rc=1
done
exit $rc
