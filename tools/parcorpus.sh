#!/bin/bash
# usage: tools/parcorpus.sh [shards]      (default 4)
# Re-runs the whole must-fail corpus - every stored seeded change and every selftest mutant -
# against private copies of /repo (clone of HEAD) and /verif, split over <shards> copies that
# run side by side under /tmp/verif-iso-<k> (removed afterwards). Results:
#   /tmp/corpus-seeds.log    one line per seeded change  (caught | failing-input/no-input | obligation)
#   /tmp/corpus-mutants.log  one line per mutant run
N=${1:-4}
cd /verif
seeds=( $(ls seeded) )
muts=( $(ls selftest/mutants | sed 's/.json$//') )
rm -f /tmp/corpus-seeds.*.log /tmp/corpus-mutants.*.log
for k in $(seq 0 $((N-1))); do
  s=""; for i in "${!seeds[@]}"; do [ $((i % N)) -eq $k ] && s="$s ${seeds[$i]}"; done
  m=""; for i in "${!muts[@]}"; do [ $((i % N)) -eq $k ] && m="$m ${muts[$i]}"; done
  VERIF_ISO=/tmp/verif-iso-$k tools/isolated.sh bash -c "tools/reseed.sh $s > /tmp/corpus-seeds.$k.log 2>&1; python3 selftest/run.py --exact $m > /tmp/corpus-mutants.$k.log 2>&1" &
done
wait
cat /tmp/corpus-seeds.*.log | sort > /tmp/corpus-seeds.log
cat /tmp/corpus-mutants.*.log | grep " | " | sort > /tmp/corpus-mutants.log
echo "seeds: $(grep -c '| caught' /tmp/corpus-seeds.log) caught of $(wc -l < /tmp/corpus-seeds.log), $(grep -c 'failing-input' /tmp/corpus-seeds.log) with a failing input replayed on the real code"
grep -v '| caught' /tmp/corpus-seeds.log || true
echo "mutants: $(wc -l < /tmp/corpus-mutants.log) runs, $(grep -c UNEXPECTED /tmp/corpus-mutants.log) unexpected"
grep UNEXPECTED /tmp/corpus-mutants.log || true
[ "$(grep -vc '| caught' /tmp/corpus-seeds.log)" = 0 ] && [ "$(grep -c UNEXPECTED /tmp/corpus-mutants.log)" = 0 ]
