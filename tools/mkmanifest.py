#!/usr/bin/env python3
"""Regenerates /verif/MANIFEST.json from tools/claims.json and tools/not_applicable.json."""
import json, os, subprocess
V = os.path.dirname(os.path.dirname(os.path.abspath(__file__)))
props = [json.loads(l) for l in open(os.path.join(V, 'properties.jsonl'))]
claims = json.load(open(os.path.join(V, 'tools', 'claims.json')))
na_path = os.path.join(V, 'tools', 'not_applicable.json')
na = json.load(open(na_path)) if os.path.exists(na_path) else {}
try:
    commits = subprocess.check_output(['git', '-C', '/repo', 'log', '--format=%h %s'], text=True).splitlines()
    hook_commits = [c.split()[0] for c in commits if c.split(' ', 1)[1].startswith('verif:')]
except Exception:
    hook_commits = []
m = {
 "version": 1,
 "setup_cmd": "cd /verif/gowp && GOFLAGS=-mod=mod GOPROXY=off GOSUMDB=off GOTOOLCHAIN=local go build -o /verif/bin/gowp .",
 "hooks": {
  "guard": "verif",
  "enable": "checks load /repo with -tags verif; the only guarded files are comment-only contract files zz_contracts_verif.go (//go:build verif) next to the code they specify",
  "baseline_off_cmd": "for m in $(cat /w/out/gomods.txt); do MF=$(cd /repo/$m && . /w/out/goenv.sh && gomodflag); (cd /repo/$m && go test $MF -json -vet=off -count=1 -timeout 25m ./...); done",
  "source_commits": hook_commits,
  "add_only": True,
 },
 "engines": [{"name": "gowp", "path": "/verif/gowp", "serves_properties": sorted(claims.keys()),
   "kind_free_text": "contract-based deductive verifier for Go written for this task: weakest-precondition style VC generation over go/ssa (naive form) of the real source, contracts as //@ comments in build-tagged files, obligations discharged by z3 5.1 / cvc5 1.0 / z3 4.8"}],
 "checks": [],
 "not_applicable": [],
 "notes": "See DESIGN.md. Known and fixed findings: known-findings.txt. Baselines of discharged obligations: baseline/<id>.json.",
}
for p in props:
    pid = p['id']
    if pid in claims:
        c = claims[pid]
        m['checks'].append({
            "property_id": pid,
            "quick_cmd": f"./check {pid} quick",
            "thorough_cmd": f"./check {pid} thorough",
            "evidence_file": f"evidence/{pid}.json",
            "replay_cmd_template": "./check --replay {path}",
            "engine": "gowp",
            "level_claimed": {"category": "proof", "text": c['text'], "design_ref": c.get('design_ref', 'DESIGN.md §5')},
            "level_note": c['note'],
            "technique": c.get('technique', "contract-based deductive verification: generated VCs over go/ssa of the real code, discharged by SMT (z3/cvc5)"),
        })
    else:
        m['not_applicable'].append({"property_id": pid, "reason": na.get(pid, "contracts designed (DESIGN.md §5) but not yet under the generator; not claimed")})
json.dump(m, open(os.path.join(V, 'MANIFEST.json'), 'w'), indent=1)
print("claimed:", [c['property_id'] for c in m['checks']])
