#!/bin/bash
# usage: tools/isolated.sh <command ...>     e.g.  tools/isolated.sh python3 selftest/run.py
# Runs a command that mutates the repository (selftest, reseed) against private copies of /repo
# (a local clone of HEAD) and of /verif (with its own gowp binary), so that work on /repo and
# /verif can go on meanwhile. The copies live under /tmp/verif-iso and are removed afterwards.
export GOFLAGS=-mod=mod GOPROXY=off GOSUMDB=off GOTOOLCHAIN=local
ISO=${VERIF_ISO:-/tmp/verif-iso}
rm -rf $ISO; mkdir -p $ISO
git clone -q /repo $ISO/repo || exit 2
rsync -a --exclude .git --exclude .work --exclude bin /verif/ $ISO/verif/
(cd $ISO/verif/gowp && go build -o ../bin/gowp .) || exit 2
export VERIF_REPO=$ISO/repo VERIF_DIR=$ISO/verif VERIF_EVIDENCE_DIR=$ISO/evidence
cd $ISO/verif && "$@"
rc=$?
rm -rf $ISO
exit $rc
