#!/bin/bash
# Re-records the baseline of every property that has contracts. Run after any contract or engine change.
cd /verif
for p in ${@:-$(ls baseline | grep -v loops | sed 's/.json//')}; do
  ./bin/gowp check -prop $p -update-baseline 2>&1 | grep "^property\|failed obligation" | cut -c1-200
done
