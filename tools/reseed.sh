#!/bin/bash
# usage: tools/reseed.sh [<seed-dir-name> ...]   (default: all under /verif/seeded)
# Applies each stored seeded change to /repo, runs the quick check of its property, reverts it,
# and prints whether the check caught it. Refuses to run when /repo has uncommitted changes.
export GOFLAGS=-mod=mod GOPROXY=off GOSUMDB=off GOTOOLCHAIN=local
R=${VERIF_REPO:-/repo}; V=${VERIF_DIR:-/verif}
cd $R && [ -z "$(git status --porcelain --untracked-files=no)" ] || { echo "$R has uncommitted changes: commit them first"; exit 2; }
cd $V/seeded
for d in ${@:-$(ls)}; do
  [ -f $V/seeded/$d/patch.diff ] || continue
  p=$(python3 -c "import json;print(json.load(open('$V/seeded/$d/meta.json'))['property'])")
  (cd $R && git apply $V/seeded/$d/patch.diff) || { echo "$d | $p | PATCH DOES NOT APPLY"; continue; }
  o=$(cd $V && VERIF_EVIDENCE_DIR=/tmp/verif-seed-evidence ./check $p quick 2>&1); rc=$?
  (cd $R && git checkout -q -- .)
  first=$(echo "$o" | grep "failed obligation\|failed bounded" | head -2 | cut -c1-170 | tr '\n' ';')
  # does at least one VIOLATION line carry a failing input replayed on the real code?
  if echo "$o" | grep "^VIOLATION" | grep -qv "no-failing-input-found"; then input="failing-input"; else input="no-input"; fi
  if [ $rc -eq 1 ]; then echo "$d | $p | caught | $input | $first"; else echo "$d | $p | MISSED (rc=$rc)"; fi
done
