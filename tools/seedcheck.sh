#!/bin/bash
# usage: tools/seedcheck.sh <worktree> <n> <seed-id> <prop> [<prop>...]
# Confirms a seeded change (patch + demo) in the scratch worktree, then runs our checks against it in /repo.
export GOFLAGS=-mod=mod GOPROXY=off GOSUMDB=off GOTOOLCHAIN=local
wt=$1; n=$2; id=$3; shift 3
out=$wt/out/$n
pkg=$(python3 -c "import json;print(json.load(open('$out/meta.json'))['demo_pkg'])")
pkg=${pkg#/tmp/*/}; pkg=${pkg#./}
dst=/verif/seeded/$id
mkdir -p $dst
cp $out/patch.diff $out/meta.json $dst/ ; cp $out/demo_test.go $dst/demo_test.go
cd $wt && git checkout -q -- . && git apply $out/patch.diff || { echo "PATCH DOES NOT APPLY in worktree"; exit 1; }
cp $out/demo_test.go $wt/$pkg/zz_seed_demo_test.go
demo_with=$(cd $wt && go test -count=1 -run 'Demo' ./$pkg/ 2>&1 | tail -3 | tr '\n' ' ')
rm -f $wt/$pkg/zz_seed_demo_test.go
touched=$(cd $wt && git diff --name-only | xargs -n1 dirname | sort -u | sed 's|^|./|' | tr '\n' ' ')
existing=$(cd $wt && go test -count=1 $touched 2>&1 | tail -4 | tr '\n' ' ')
cd $wt && git checkout -q -- .
cp $out/demo_test.go $wt/$pkg/zz_seed_demo_test.go
demo_without=$(cd $wt && go test -count=1 -run 'Demo' ./$pkg/ 2>&1 | tail -2 | tr '\n' ' ')
rm -f $wt/$pkg/zz_seed_demo_test.go
echo "demo with change   : $demo_with"
echo "demo without change: $demo_without"
echo "existing tests     : $existing"
cd /repo && [ -z "$(git status --porcelain --untracked-files=no)" ] || { echo "/repo has uncommitted changes: commit them first"; exit 1; }; git apply $out/patch.diff || { echo "PATCH DOES NOT APPLY in /repo"; exit 1; }
res=""
for p in "$@"; do
  o=$(cd /verif && VERIF_EVIDENCE_DIR=/tmp/verif-seed-evidence ./check $p quick 2>&1)
  rc=$?
  echo "--- check $p rc=$rc"; echo "$o" | grep "failed obligation\|VIOLATION\|property" | cut -c1-220
  res="$res $p:rc=$rc"
done
cd /repo && git checkout -q -- .
python3 - "$dst" "$demo_with" "$demo_without" "$existing" "$res" <<'PY'
import json,sys
dst,dw,dwo,ex,res=sys.argv[1:6]
m=json.load(open(dst+'/meta.json'))
m['confirmed']={'demo_with_change':dw,'demo_without_change':dwo,'existing_tests_with_change':ex,'our_checks':res.strip()}
json.dump(m,open(dst+'/meta.json','w'),indent=1)
PY
