//go:build verif

// Contracts checked by /verif/gowp. This file contains comments only and is compiled only
// with -tags verif.

package initializer

// C20 (installer): a package requested at init time reuses the name of an installed package
// with the same source (registry/repository, without tag or digest), so re-running init never
// installs the same package twice under a second name; otherwise its name is derived from the
// repository.

//@ func initializer.buildPack
//@ props C20
//@ let $ref = result name.ParseReference
//@ site (v1.Package).SetName(_, $n)
//@   witness samekey = $ref.Context().RepositoryStr() == xpkg.ParsePackageSourceFromReference($ref)
//@   witness installed = xpkg.ParsePackageSourceFromReference($ref) in pkgMap
//@   assert [C20:installed-source-keeps-its-name] (xpkg.ParsePackageSourceFromReference($ref) in pkgMap) ==> $n == pkgMap[xpkg.ParsePackageSourceFromReference($ref)]
//@   assert [C20:new-source-named-after-repository] !(xpkg.ParsePackageSourceFromReference($ref) in pkgMap) ==> $n == xpkg.ToDNSLabel($ref.Context().RepositoryStr())
//@ site (v1.Package).SetSource(_, $s)
//@   assert [C20:source-is-the-requested-image] $s == $ref.String()
